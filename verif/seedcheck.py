"""Confirm and evaluate seeded breaking changes.

usage: python3 -m verif.seedcheck <seed dir> <property> [--tier quick|thorough] [--keep <name>]

<seed dir> holds patch<i>.diff / demo<i>.py / note<i>.txt triples written by
an independent sub-agent.  For each triple:
  1. confirmation in a scratch worktree of /repo (outside /repo and /verif):
     the patch applies, the library's test suite still passes (153), the
     demonstration fails with the patch and passes without it;
  2. evaluation: the patch is applied to /repo itself, the property's check
     is run, and the patch is undone straight afterwards
     (git -C /repo checkout -- .);
  3. a confirmed change is copied to /verif/seeded/<property>-<n>/ with
     meta.json (what it breaks, what it needs to manifest, what was run, and
     whether the check caught it).
"""
import glob
import json
import os
import re
import shutil
import subprocess
import sys
import time

ROOT = os.path.dirname(os.path.dirname(os.path.abspath(__file__)))
REPO = "/repo"
SCRATCH = "/tmp/wt/_verify"


def sh(cmd, cwd=None, timeout=3600, env=None):
    p = subprocess.run(cmd, shell=True, cwd=cwd, capture_output=True, text=True, timeout=timeout,
                       env=env)
    return p.returncode, p.stdout + p.stderr


def confirm(patch, demo):
    res = {}
    sh("git -C %s worktree remove --force %s" % (REPO, SCRATCH))
    rc, out = sh("git -C %s worktree add -q --detach %s HEAD" % (REPO, SCRATCH))
    if rc:
        return {"error": "worktree: " + out[-300:]}
    try:
        rc, out = sh("git apply %s" % patch, cwd=SCRATCH)
        res["applies"] = rc == 0
        if rc:
            res["error"] = out[-300:]
            return res
        env = dict(os.environ, PYTHONPATH=SCRATCH, PYTHONDONTWRITEBYTECODE="1")
        rc, out = sh("/venv/bin/python -m pytest -q -p no:cacheprovider --timeout=900 2>&1 | tail -3",
                     cwd=SCRATCH, env=env)
        m = re.search(r"(\d+) passed", out)
        res["tests_passed"] = int(m.group(1)) if m else 0
        res["tests_failed"] = "failed" in out
        rc, out = sh("/venv/bin/python %s" % demo, cwd=SCRATCH, env=env, timeout=300)
        res["demo_with_patch_rc"] = rc
        res["demo_with_patch_out"] = out[-400:]
        sh("git checkout -- .", cwd=SCRATCH)
        rc, out = sh("/venv/bin/python %s" % demo, cwd=SCRATCH, env=env, timeout=300)
        res["demo_without_patch_rc"] = rc
        res["confirmed"] = (res["tests_passed"] >= 153 and not res["tests_failed"]
                            and res["demo_with_patch_rc"] != 0 and res["demo_without_patch_rc"] == 0)
    finally:
        sh("git -C %s worktree remove --force %s" % (REPO, SCRATCH))
    return res


def evaluate(patch, prop, tier):
    rc, out = sh("git -C %s status --porcelain" % REPO)
    if out.strip():
        return {"error": "/repo is not clean: " + out[:200]}
    rc, out = sh("git -C %s apply %s" % (REPO, patch))
    if rc:
        return {"error": "apply to /repo: " + out[-300:]}
    t0 = time.time()
    try:
        rc, out = sh("./check %s %s" % (prop, tier), cwd=ROOT, timeout=4 * 3600)
    finally:
        sh("git -C %s checkout -- ." % REPO)
    lines = [l for l in out.splitlines() if l.startswith(("VIOLATION", "SUMMARY", "HARNESS-ERROR"))
             or l.startswith("  condition=")]
    return {"exit": rc, "caught": rc == 1 and "VIOLATION property=%s" % prop in out,
            "wall_s": round(time.time() - t0, 1), "lines": lines[:12]}


def main(argv):
    seed_dir, prop = argv[0], argv[1]
    tier = "quick"
    if "--tier" in argv:
        tier = argv[argv.index("--tier") + 1]
    tag = ""
    if "--tag" in argv:
        tag = argv[argv.index("--tag") + 1] + "-"
    out = []
    for patch in sorted(glob.glob(os.path.join(seed_dir, "patch*.diff"))):
        i = re.search(r"patch(\d+)\.diff", patch).group(1)
        demo = os.path.join(seed_dir, "demo%s.py" % i)
        note = os.path.join(seed_dir, "note%s.txt" % i)
        rec = {"property": prop, "patch": patch, "demo": demo}
        rec["confirmation"] = confirm(patch, demo)
        if rec["confirmation"].get("confirmed"):
            rec["evaluation"] = {tier: evaluate(patch, prop, tier)}
            dest = os.path.join(ROOT, "seeded", "%s-%s%s" % (prop, tag, i))
            os.makedirs(dest, exist_ok=True)
            shutil.copy(patch, os.path.join(dest, "patch.diff"))
            shutil.copy(demo, os.path.join(dest, "demo.py"))
            meta = {
                "property": prop,
                "breaks": open(note).read().strip() if os.path.exists(note) else "",
                "origin": "independent sub-agent given only the property text and a scratch worktree",
                "confirmed_by": [
                    "git apply in a scratch worktree of /repo HEAD (outside /repo and /verif)",
                    "/venv/bin/python -m pytest -q -p no:cacheprovider -> %d passed" %
                    rec["confirmation"]["tests_passed"],
                    "demo.py exits %d with the patch and %d without it" % (
                        rec["confirmation"]["demo_with_patch_rc"],
                        rec["confirmation"]["demo_without_patch_rc"])],
                "check_runs": rec["evaluation"],
            }
            old = os.path.join(dest, "meta.json")
            if os.path.exists(old):
                try:
                    prev = json.load(open(old))
                    meta["earlier_check_runs"] = prev.get("earlier_check_runs", []) + [prev.get("check_runs")]
                except ValueError:
                    pass
            with open(os.path.join(dest, "meta.json"), "w") as fh:
                json.dump(meta, fh, indent=1)
        out.append(rec)
        print(json.dumps({"patch": patch, "confirmed": rec["confirmation"].get("confirmed"),
                          "detail": {k: v for k, v in rec["confirmation"].items()
                                     if k in ("applies", "tests_passed", "demo_with_patch_rc",
                                              "demo_without_patch_rc", "error")},
                          "evaluation": rec.get("evaluation")}), flush=True)
    return 0


if __name__ == "__main__":
    sys.exit(main(sys.argv[1:]))
