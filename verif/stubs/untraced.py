"""Run heavy concrete third-party code (jinja2) outside the symbolic tracer
on realised arguments (rule 7 of DESIGN 1.1).  Outside CrossHair these
helpers are plain calls."""
import contextlib

import jinja2
from crosshair.tracers import NoTracing
from crosshair.core import deep_realize

_RealTemplate = jinja2.Template


def untraced(fn, *args, **kwargs):
    with NoTracing():
        args = deep_realize(args)
        kwargs = deep_realize(kwargs)
        return fn(*args, **kwargs)


class FastTemplate(_RealTemplate):
    """jinja2.Template compiled and rendered untraced."""

    def __new__(cls, *args, **kwargs):
        with NoTracing():
            args = deep_realize(args)
            return _RealTemplate.__new__(cls, *args, **kwargs)

    def render(self, *args, **kwargs):
        with NoTracing():
            args = deep_realize(args)
            kwargs = deep_realize(kwargs)
            return _RealTemplate.render(self, *args, **kwargs)


@contextlib.contextmanager
def fast_jinja():
    old = jinja2.Template
    jinja2.Template = FastTemplate
    try:
        yield
    finally:
        jinja2.Template = old
