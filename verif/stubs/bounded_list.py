"""A list with an operation budget: turns a self-feeding
``buf.extend(generator reading buf)`` (which never returns on a real list)
into a finite, observable event."""


class BufferBudget(Exception):
    pass


class BoundedList(list):
    def __init__(self, limit):
        super(BoundedList, self).__init__()
        self.limit = limit
        self.high_water = 0

    def _note(self):
        n = len(self)
        if n > self.high_water:
            self.high_water = n
        if n > self.limit:
            raise BufferBudget("buffer grew past %d items" % self.limit)

    def append(self, v):
        list.append(self, v)
        self._note()

    def extend(self, it):
        for v in it:
            list.append(self, v)
            self._note()
