"""Pure-Python model of collections.deque (the C type is a boundary where the
symbolic engine would have to realise ``maxlen``).

Contract kept: bounded length with eviction from the opposite end,
append/appendleft/pop/popleft/len/iter/indexing, IndexError on empty pop.
``PyDeque.high_water`` records the largest length any instance reached
since ``PyDeque.reset_stats()`` - used by C02 to bound what a negative
Slice keeps alive.
"""
import collections
import contextlib

_REAL = collections.deque


class PyDeque(object):
    high_water = 0
    constructed = 0

    def __init__(self, iterable=(), maxlen=None):
        if maxlen is not None and maxlen < 0:
            raise ValueError("maxlen must be non-negative")
        self.maxlen = maxlen
        self._l = []
        PyDeque.constructed += 1
        for v in iterable:
            self.append(v)

    @classmethod
    def reset_stats(cls):
        cls.high_water = 0
        cls.constructed = 0

    def _note(self):
        n = len(self._l)
        if n > PyDeque.high_water:
            PyDeque.high_water = n

    def append(self, v):
        if self.maxlen is not None:
            if self.maxlen == 0:
                return
            if len(self._l) >= self.maxlen:
                del self._l[0]
        self._l.append(v)
        self._note()

    def appendleft(self, v):
        if self.maxlen is not None:
            if self.maxlen == 0:
                return
            if len(self._l) >= self.maxlen:
                del self._l[-1]
        self._l.insert(0, v)
        self._note()

    def pop(self):
        if not self._l:
            raise IndexError("pop from an empty deque")
        return self._l.pop()

    def popleft(self):
        if not self._l:
            raise IndexError("pop from an empty deque")
        return self._l.pop(0)

    def clear(self):
        del self._l[:]

    def __len__(self):
        return len(self._l)

    def __iter__(self):
        return iter(list(self._l))

    def __getitem__(self, i):
        return self._l[i]

    def __bool__(self):
        return len(self._l) > 0

    def __eq__(self, other):
        if isinstance(other, PyDeque):
            return self._l == other._l
        return NotImplemented

    def __repr__(self):
        return "PyDeque(%r, maxlen=%r)" % (self._l, self.maxlen)


@contextlib.contextmanager
def patched_deque():
    """collections.deque -> PyDeque for code that looks it up at call time
    (lena.flow.iterators.Slice, lena.flow.elements.RunningChunkBy,
    lena.flow.progress)."""
    old = collections.deque
    collections.deque = PyDeque
    try:
        yield PyDeque
    finally:
        collections.deque = old
