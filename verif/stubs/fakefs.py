"""In-memory model of the file system, `os`, `subprocess` and the pickle
stream as seen from lena's output / cache modules.

Contract kept: a path -> content map with a logical clock for modification
times; `open(path, "w"/"wb")` creates/truncates at open time; reading a
missing file raises FileNotFoundError; remove/rename/replace/makedirs/
exists/access/getmtime; every operation is logged.  `os.path` string
functions are the real (pure) posixpath ones.  FakeSubprocess runs the
"converters" synchronously: `pdflatex ... x.tex` writes x.pdf = PDF(<tex>|<content of the data file
named by CSV=<path> in the tex>), `pdftoppm x.pdf x -png` writes
x.png = PNG(<pdf>).
"""
import contextlib
import copy
import posixpath


class FakeFile(object):
    def __init__(self, fs, path, mode):
        self.fs = fs
        self.path = path
        self.mode = mode
        self.pos = 0
        self.closed = False

    # text / binary writes
    def write(self, data):
        if "w" not in self.mode and "a" not in self.mode:
            raise IOError("not writable")
        ent = self.fs.files[self.path]
        if isinstance(data, bytes):
            data = data.decode("utf-8", "replace")
        ent["content"] = ent["content"] + data
        self.fs.touch(self.path)
        self.fs.log.append(("write", self.path))
        return len(data)

    def read(self, size=-1):
        ent = self.fs.files[self.path]
        self.fs.log.append(("read", self.path))
        return ent["content"]

    def readlines(self):
        return self.read().splitlines(True)

    def __iter__(self):
        return iter(self.readlines())

    def close(self):
        self.closed = True

    def flush(self):
        pass

    def __enter__(self):
        return self

    def __exit__(self, *exc):
        self.close()
        return False


class FakeFS(object):
    def __init__(self):
        self.files = {}     # path -> {"content": str, "records": list, "mtime": int}
        self.dirs = set()
        self.clock = 0
        self.log = []

    def touch(self, path):
        self.clock += 1
        self.files[path]["mtime"] = self.clock

    def open(self, path, mode="r", *args, **kwargs):
        self.log.append(("open", path, mode))
        if "w" in mode:
            self.files[path] = {"content": "", "records": [], "mtime": 0}
            self.touch(path)
        elif "a" in mode:
            if path not in self.files:
                self.files[path] = {"content": "", "records": [], "mtime": 0}
                self.touch(path)
        elif path not in self.files:
            raise FileNotFoundError(2, "No such file or directory", path)
        return FakeFile(self, path, mode)

    # pickle stream
    def dump(self, val, f, protocol=None):
        ent = self.files[f.path]
        ent["records"].append(copy.deepcopy(val))
        self.touch(f.path)
        self.log.append(("dump", f.path))

    def load(self, f):
        ent = self.files[f.path]
        if f.pos >= len(ent["records"]):
            raise EOFError
        val = copy.deepcopy(ent["records"][f.pos])
        f.pos += 1
        self.log.append(("load", f.path))
        return val

    def snapshot(self):
        return dict((p, (e["content"], list(e["records"]))) for p, e in self.files.items())

    def writes_since(self, mark):
        return [op for op in self.log[mark:] if op[0] in ("write", "dump", "remove", "rename")
                or (op[0] == "open" and ("w" in op[2] or "a" in op[2]))]


class _FakePath(object):
    def __init__(self, fs):
        self._fs = fs
        for name in ("join", "dirname", "basename", "splitext", "isabs", "normpath",
                     "split", "sep", "relpath", "abspath", "commonprefix", "expanduser"):
            setattr(self, name, getattr(posixpath, name))

    def exists(self, path):
        return path in self._fs.files or path in self._fs.dirs

    def isfile(self, path):
        return path in self._fs.files

    def isdir(self, path):
        return path in self._fs.dirs

    def getsize(self, path):
        if path not in self._fs.files:
            raise FileNotFoundError(2, "No such file or directory", path)
        ent = self._fs.files[path]
        return len(ent["content"]) + len(ent["records"])

    def getmtime(self, path):
        if path not in self._fs.files:
            raise FileNotFoundError(2, "No such file or directory", path)
        return self._fs.files[path]["mtime"]


class FakeOS(object):
    R_OK = 4
    W_OK = 2
    F_OK = 0
    sep = "/"
    devnull = "/dev/null"
    error = OSError

    def __init__(self, fs):
        self._fs = fs
        self.path = _FakePath(fs)
        self.environ = {}

    def access(self, path, mode):
        return path in self._fs.files

    def remove(self, path):
        self._fs.log.append(("remove", path))
        if path not in self._fs.files:
            raise FileNotFoundError(2, "No such file or directory", path)
        del self._fs.files[path]

    unlink = remove

    def rename(self, a, b):
        self._fs.log.append(("rename", a, b))
        if a not in self._fs.files:
            raise FileNotFoundError(2, "No such file or directory", a)
        self._fs.files[b] = self._fs.files.pop(a)
        self._fs.touch(b)

    replace = rename

    def makedirs(self, d, mode=0o777, exist_ok=False):
        self._fs.log.append(("makedirs", d))
        if d in self._fs.dirs and not exist_ok:
            raise FileExistsError(17, "File exists", d)
        self._fs.dirs.add(d)

    def mkdir(self, d, mode=0o777):
        self.makedirs(d, exist_ok=False)

    def getcwd(self):
        return "/cwd"

    def listdir(self, d):
        return [posixpath.basename(p) for p in self._fs.files if posixpath.dirname(p) == d]


class FakeCompleted(object):
    def __init__(self, rc=0):
        self.returncode = rc
        self.stdout = b""
        self.stderr = b""


class FakeSubprocess(object):
    PIPE = -1
    STDOUT = -2
    DEVNULL = -3

    class CalledProcessError(Exception):
        pass

    def __init__(self, fs):
        self._fs = fs
        self.calls = []

    def _run(self, cmd):
        cmd = list(cmd)
        self.calls.append(cmd)
        self._fs.log.append(("subprocess", tuple(cmd)))
        prog = cmd[0]
        if prog in ("pdflatex", "xelatex", "lualatex"):
            tex = [c for c in cmd if c.endswith(".tex")][-1]
            outdir = None
            if "-output-directory" in cmd:
                outdir = cmd[cmd.index("-output-directory") + 1]
            base = posixpath.basename(tex)[:-4]
            d = outdir if outdir is not None else posixpath.dirname(tex)
            pdf = posixpath.join(d, base + ".pdf") if d else base + ".pdf"
            src = self._fs.files.get(tex)
            text = src["content"] if src else "<missing>"
            # the document includes the data file it names (CSV=<path>)
            inc = ""
            if "CSV=" in text:
                path = text.split("CSV=", 1)[1].split("]", 1)[0]
                ent = self._fs.files.get(path)
                inc = "|" + (ent["content"] if ent else "<missing>")
            content = "PDF(" + text + inc + ")"
            self._fs.files[pdf] = {"content": content, "records": [], "mtime": 0}
            self._fs.touch(pdf)
        elif prog == "pdftoppm":
            pdf, base = cmd[1], cmd[2]
            fmt = [c[1:] for c in cmd[3:] if c.startswith("-") and c != "-singlefile"]
            out = base + "." + (fmt[0] if fmt else "ppm")
            src = self._fs.files.get(pdf)
            content = "PNG(" + (src["content"] if src else "<missing>") + ")"
            self._fs.files[out] = {"content": content, "records": [], "mtime": 0}
            self._fs.touch(out)
        return 0

    def call(self, cmd, *a, **k):
        return self._run(cmd)

    def check_call(self, cmd, *a, **k):
        return self._run(cmd)

    def check_output(self, cmd, *a, **k):
        self._run(cmd)
        return b""

    def run(self, cmd, *a, **k):
        return FakeCompleted(self._run(cmd))

    def Popen(self, cmd, *a, **k):
        sp = self

        class _P(object):
            returncode = 0

            def __init__(self):
                sp._run(cmd)

            def communicate(self, *a, **k):
                return (b"", b"")

            def wait(self, *a, **k):
                return 0

            def poll(self):
                return 0
        return _P()


@contextlib.contextmanager
def world(modules, with_subprocess=False):
    """Install a fresh fake world into the given lena modules (attribute
    injection: `open`, `os`, optionally `subprocess`), yield it, restore."""
    fs = FakeFS()
    fos = FakeOS(fs)
    fsp = FakeSubprocess(fs)
    saved = []
    for m in modules:
        for name, val in (("open", fs.open), ("os", fos), ("subprocess", fsp)):
            if name == "subprocess" and not (with_subprocess and hasattr(m, "subprocess")):
                continue
            if name == "os" and not hasattr(m, "os"):
                continue
            saved.append((m, name, m.__dict__.get(name, _ABSENT)))
            setattr(m, name, val)
    fs.os = fos
    fs.subprocess = fsp
    try:
        yield fs
    finally:
        for m, name, old in saved:
            if old is _ABSENT:
                delattr(m, name)
            else:
                setattr(m, name, old)


_ABSENT = object()


class FakeTemplate(object):
    """Like a jinja2 Template: compiled from the source as it was when the
    environment loaded it (Environment.get_template re-checks the source on
    every call, a Template object kept by the caller does not)."""

    def __init__(self, env, name):
        self.env = env
        self.name = name
        self.text = env.templates.get(name, "<no template>")

    def render(self, ctx, *a, **k):
        text = self.text
        path = ctx.get("output", {}).get("filepath", "<nopath>") if isinstance(ctx, dict) else "<data>"
        return "TEX[%s|CSV=%s]" % (text, path)


class FakeJinjaEnv(object):
    """The `environment=` argument of RenderLaTeX: get_template(name).render(ctx)
    = TEX[<current template text>|CSV=<ctx.output.filepath>]."""

    def __init__(self):
        self.templates = {}
        self.requests = []

    def get_template(self, name):
        self.requests.append(name)
        return FakeTemplate(self, name)
