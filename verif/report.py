"""Markdown summary of the evidence files (used for DESIGN.md 6.4)."""
import glob
import json
import os

ROOT = os.path.dirname(os.path.dirname(os.path.abspath(__file__)))


def main():
    print("| property | tier | conditions (confirm/bughunt) | obligations | discharged | inconclusive | "
          "paths | solver decisions | solver s | wall s |")
    print("|---|---|---|---|---|---|---|---|---|---|")
    for f in sorted(glob.glob(os.path.join(ROOT, "evidence", "*.json"))):
        e = json.load(open(f))
        c = e["coverage"]
        conds = c["conditions"]
        names = sorted(set(x["condition"] for x in conds if x["kind"] != "twin"))
        hunts = sorted(set(x["condition"] for x in conds if x["kind"] == "bughunt"))
        print("| %s | %s | %d / %d | %d | %d | %d | %d | %d | %.0f | %.0f |" % (
            e["property_id"], e["tier"], len(names) - len(hunts), len(hunts), c["obligations"],
            c["discharged"], c["inconclusive"], c["states"], c["transitions"], c["solver_time_s"],
            e["wall_s"]))


if __name__ == "__main__":
    main()
