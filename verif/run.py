"""Orchestrator behind every quick_cmd / thorough_cmd.

usage: python -m verif.run <Cxx> [--tier quick|thorough] [--only <condition>]
       python -m verif.run replay <replay.json>

For one property: loads harness module(s), decides which known findings are
still active (concrete witness replay), runs every condition x shard and one
reachability twin per condition in worker processes (CrossHair / engine K),
replays every counterexample in a fresh plain-Python process against /repo,
writes /verif/evidence/<id>.json and prints the verdict lines.

exit 0  property held on everything explored (INCONCLUSIVE / KNOWN-FINDING
        lines possible)
exit 1  a violation that reproduces against the real code
exit 2  harness error (vacuous precondition, unreachable assertion, crash)
"""
import concurrent.futures as cf
import hashlib
import importlib
import json
import os
import re
import subprocess
import sys
import time

ROOT = os.path.dirname(os.path.dirname(os.path.abspath(__file__)))
REPO = os.environ.get("VERIF_REPO", "/repo")
PY = sys.executable

HARNESS = {
    "C01": "harness.c01_sequence",
    "C02": "harness.c02_lazy",
    "C03": "harness.c03_split",
    "C04": "harness.c04_context_isolation",
    "C05": "harness.c05_run_fill",
    "C06": "harness.c06_histogram",
    "C07": "harness.c07_dict_algebra",
    "C08": "harness.c08_context_addr",
    "C09": "harness.c09_accumulators",
    "C10": "harness.c10_passthrough",
    "C11": "harness.c11_split_into_bins",
    "C12": "harness.c12_hist_arith",
    "C13": "harness.c13_static_context",
    "C14": "harness.c14_variables",
    "C15": "harness.c15_selectors",
    "C16": "harness.c16_fill_request",
    "C17": "harness.c17_iterators",
    "C18": "harness.c18_cache",
    "C19": "harness.c19_output",
    "C20": "harness.c20_names",
}


def base_env(tier, seed):
    env = dict(os.environ)
    env["PYTHONPATH"] = os.pathsep.join([ROOT, REPO])
    env["VERIF_TIER_EFFECTIVE"] = tier
    env["VERIF_SEED"] = str(seed)
    env["PYTHONHASHSEED"] = "0"
    env["PYTHONDONTWRITEBYTECODE"] = "1"
    env.pop("VERIF_TWIN", None)
    env.pop("VERIF_SHARD", None)
    return env


def last_json(text):
    for line in reversed(text.strip().splitlines()):
        line = line.strip()
        if line.startswith("{"):
            try:
                return json.loads(line)
            except ValueError:
                continue
    return None


def call_plain(module, expr, env, timeout=120):
    """Evaluate a harness call concretely in a fresh interpreter."""
    try:
        p = subprocess.run([PY, "-m", "verif.callexpr", module, expr],
                           env=env, cwd=ROOT, capture_output=True, text=True,
                           timeout=timeout)
    except subprocess.TimeoutExpired:
        return {"outcome": "timeout"}
    res = last_json(p.stdout)
    if res is None:
        return {"outcome": "crash", "detail": (p.stderr or p.stdout)[-800:]}
    return res


def run_worker(task, env):
    e = dict(env)
    e["VERIF_SHARD"] = "%d/%d" % (task["shard"], task["nshards"])
    if task["twin"]:
        e["VERIF_TWIN"] = "1"
    if task.get("per_path"):
        e["VERIF_PER_PATH"] = str(task["per_path"])
    t0 = time.time()
    if task.get("custom"):
        cmd = [PY, "-m", "verif.custom_worker", task["module"], task["fn"],
               str(task["budget"])]
    else:
        cmd = [PY, "-m", "verif.ch_worker", task["module"], task["fn"],
               str(task["budget"])]
    wall_cap = task["budget"] * 2 + 120
    try:
        p = subprocess.run(cmd, env=e, cwd=ROOT, capture_output=True,
                           text=True, timeout=wall_cap)
        res = last_json(p.stdout)
        if res is None:
            res = {"status": "CRASH",
                   "detail": (p.stderr or p.stdout)[-1500:]}
    except subprocess.TimeoutExpired:
        res = {"status": "KILLED", "detail": "wall cap %ds" % wall_cap}
    res["task"] = task
    res.setdefault("wall_s", round(time.time() - t0, 2))
    return res


CALL_RE = re.compile(r"when calling (.*?)(?: \(which returns .*\))?$", re.S)


def extract_call(message):
    m = CALL_RE.search(message.strip())
    if not m:
        return None
    call = m.group(1).strip()
    # "f(...) with <patch expr>" never occurs (no patched callables), keep simple
    return call


def load_known(prop):
    path = os.path.join(ROOT, "known_findings.json")
    if not os.path.exists(path):
        return []
    data = json.load(open(path))
    return [f for f in data.get("findings", [])
            if f.get("property") == prop and f.get("status") == "open"]


def main(argv):
    if argv and argv[0] == "replay":
        p = subprocess.run([PY, "-m", "verif.callexpr", "--file", argv[1]],
                           env=base_env("quick", 0), cwd=ROOT)
        return p.returncode
    prop = argv[0]
    tier = os.environ.get("VERIF_TIER", "") or "quick"
    only = None
    i = 1
    while i < len(argv):
        if argv[i] == "--tier":
            tier = argv[i + 1]
            i += 2
        elif argv[i] == "--only":
            only = argv[i + 1]
            i += 2
        else:
            raise SystemExit("unknown argument %r" % argv[i])
    assert tier in ("quick", "thorough")
    try:
        seed = int(os.environ.get("VERIF_SEED", "0") or 0)
    except ValueError:
        seed = 0
    t_start = time.time()
    env = base_env(tier, seed)
    os.environ.update({k: env[k] for k in
                       ("VERIF_TIER_EFFECTIVE", "PYTHONHASHSEED")})
    sys.path[:0] = [ROOT, REPO]
    modname = HARNESS[prop]
    mod = importlib.import_module(modname)
    tix = 0 if tier == "quick" else 1

    lines = []            # verdict lines printed at the end as well
    harness_errors = []
    violations = []       # dicts with replay paths
    validated = 0         # concrete replays against the real code
    samples = []

    # ---- known findings: which are still active? -------------------------
    active = []
    kf_report = []
    for f in load_known(prop):
        w = f["witness"]
        res = call_plain(w["module"], w["call"], env)
        validated += 1
        still = res["outcome"] in ("false", "raises", "timeout")
        kf_report.append({"id": f["id"], "witness": w["call"],
                          "outcome": res["outcome"], "active": still})
        if still:
            active.append(f["id"])
            msg = "KNOWN-FINDING: property=%s %s [%s; witness %s -> %s]" % (
                prop, f["what"], f["id"], w["call"], res["outcome"])
            print(msg, flush=True)
            lines.append(msg)
    env["VERIF_KF"] = ",".join(active)

    # ---- tasks ---------------------------------------------------------
    conds = [c for c in mod.CONDITIONS if only in (None, c["fn"])]
    conds = [c for c in conds if tier in c.get("tiers", ("quick", "thorough"))]
    tasks = []
    for c in conds:
        nsh = c.get("shards", (1, 1))[tix]
        budget = c.get("budget", (60, 600))[tix]
        for s in range(nsh):
            tasks.append(dict(module=modname, fn=c["fn"], shard=s, nshards=nsh,
                              budget=budget, twin=False, kind=c.get("kind", "confirm"),
                              custom=c.get("custom", False),
                              per_path=c.get("per_path")))
        if not c.get("custom") and not c.get("no_twin"):
            tasks.append(dict(module=modname, fn=c["fn"], shard=0, nshards=1,
                              budget=min(budget, 120), twin=True, kind="twin",
                              custom=False, per_path=c.get("per_path")))
    # keep a thorough run inside a stated CPU envelope: nominal budgets are
    # scaled down proportionally when their sum exceeds the cap (shards that
    # finish early free their cores; a shard cut short is INCONCLUSIVE)
    cap = float(os.environ.get("VERIF_CPU_CAP", "0") or 0) or (21600.0 if tier == "thorough" else 0.0)
    total = sum(t["budget"] for t in tasks if not t["twin"])
    scale = 1.0
    if cap and total > cap:
        scale = cap / total
        for t in tasks:
            if not t["twin"]:
                t["budget"] = max(30, int(t["budget"] * scale))
    # long tasks first
    tasks.sort(key=lambda t: (-t["budget"], t["twin"]))
    ncpu = int(os.environ.get("VERIF_JOBS", "0") or 0) or (os.cpu_count() or 4)
    results = []
    with cf.ThreadPoolExecutor(max_workers=ncpu) as ex:
        futs = [ex.submit(run_worker, t, env) for t in tasks]
        for f in cf.as_completed(futs):
            results.append(f.result())

    # ---- smoke (plain CPython, fixed inputs) -----------------------------
    smoke_report = []
    for c in conds:
        for expr in c.get("smoke", []):
            res = call_plain(modname, expr, env)
            validated += 1
            smoke_report.append({"call": expr, "outcome": res["outcome"]})
            if res["outcome"] != "true":
                # a fixed input failing concretely: the solver conditions
                # decide whether this is a violation; alone it only shows
                # that harness and code disagree
                harness_errors.append("smoke %s -> %s %s %s" % (
                    expr, res["outcome"], res.get("exception", ""),
                    res.get("detail", "")))

    # ---- verdicts --------------------------------------------------------
    cond_report = []
    # a shard whose precondition is never met is an empty cell of the
    # partition of the bound (e.g. a shard key that does not take every
    # residue in this tier): it carries no obligation.  Vacuity of the whole
    # condition is excluded separately - by its reachability twin and by the
    # requirement that at least one shard of the condition is non-empty.
    nonempty = {}
    for r in results:
        t = r["task"]
        if not t["twin"]:
            nonempty.setdefault(t["fn"], 0)
            if r.get("status") != "PRE_UNSAT":
                nonempty[t["fn"]] += 1
    obligations = discharged = inconclusive = 0
    states = transitions = 0
    solver_time = 0.0
    for r in sorted(results, key=lambda r: (r["task"]["fn"], r["task"]["twin"],
                                            r["task"]["shard"])):
        t = r["task"]
        status = r.get("status", "CRASH")
        states += int(r.get("paths", 0) or 0)
        transitions += int(r.get("decisions", 0) or 0)
        solver_time += float(r.get("solver_time_s", 0) or 0)
        entry = {"condition": t["fn"], "shard": "%d/%d" % (t["shard"], t["nshards"]),
                 "kind": t["kind"], "verdict": status,
                 "paths": r.get("paths"), "confirmed_paths": r.get("confirmed_paths"),
                 "decisions": r.get("decisions"),
                 "solver_checks": r.get("solver_checks"),
                 "solver_time_s": r.get("solver_time_s"),
                 "cpu_s": r.get("cpu_s"), "wall_s": r.get("wall_s"),
                 "budget_s": t["budget"]}
        for k in ("queries", "detail", "extra"):
            if k in r:
                entry[k] = r[k]
        if t["twin"]:
            # reachability twin: must be REFUTED; witness replayed concretely
            if status == "REFUTED":
                call = None
                for m in r.get("messages", []):
                    call = extract_call(m["message"]) or call
                entry["witness"] = call
                if call:
                    res = call_plain(modname, call, env)
                    validated += 1
                    entry["witness_concrete"] = res["outcome"]
                    if len(samples) < 12:
                        samples.append({"condition": t["fn"], "reachability_witness": call,
                                        "concrete_outcome": res["outcome"]})
                    if res["outcome"] in ("false", "raises"):
                        violations.append({"condition": t["fn"], "call": call,
                                           "result": res, "source": "twin-witness"})
            elif status == "UNKNOWN":
                entry["note"] = "twin not decided within budget"
                lines.append("INCONCLUSIVE property=%s condition=%s (reachability twin undecided)"
                             % (prop, t["fn"]))
            else:
                harness_errors.append("reachability twin of %s: %s %s" % (
                    t["fn"], status, str(r.get("detail", ""))[:800]))
            cond_report.append(entry)
            continue
        obligations += 1
        if status == "CONFIRMED":
            discharged += 1
        elif status == "REFUTED":
            reproduced = False
            for m in r.get("messages", []):
                if m["state"] not in ("POST_FAIL", "EXEC_ERR", "POST_ERR"):
                    continue
                if "NotDeterministic" in m["message"]:
                    continue
                call = m.get("call") or extract_call(m["message"])
                if not call:
                    continue
                res = call_plain(m.get("module", modname), call, env)
                validated += 1
                entry.setdefault("counterexamples", []).append(
                    {"call": call, "solver_message": m["message"][:300],
                     "concrete_outcome": res["outcome"]})
                if res["outcome"] in ("false", "raises", "timeout"):
                    reproduced = True
                    violations.append({"condition": t["fn"], "call": call,
                                       "module": m.get("module", modname),
                                       "result": res, "source": "solver"})
            if not reproduced:
                inconclusive += 1
                entry["verdict"] = "NONREPRODUCING"
                lines.append("INCONCLUSIVE property=%s condition=%s shard=%s "
                             "(solver candidate did not reproduce on the real code)"
                             % (prop, t["fn"], entry["shard"]))
        elif status in ("UNKNOWN", "KILLED"):
            inconclusive += 1
            if t["kind"] != "bughunt":
                lines.append("INCONCLUSIVE property=%s condition=%s shard=%s (%s)"
                             % (prop, t["fn"], entry["shard"], status))
        elif status == "PRE_UNSAT" and t["nshards"] > 1 and nonempty.get(t["fn"], 0) > 0:
            obligations -= 1
            entry["verdict"] = "EMPTY_SHARD"
            entry["note"] = "no input of the bound falls into this shard"
        elif status == "PRE_UNSAT":
            harness_errors.append("%s shard %s: precondition never met" % (
                t["fn"], entry["shard"]))
        else:
            harness_errors.append("%s shard %s: %s %s" % (
                t["fn"], entry["shard"], status, str(r.get("detail", ""))[:1500]))
        cond_report.append(entry)

    # ---- violations -> replay files --------------------------------------
    os.makedirs(os.path.join(ROOT, "replays"), exist_ok=True)
    seen = set()
    for v in violations:
        key = (v.get("module", modname), v["call"])
        if key in seen:
            continue
        seen.add(key)
        h = hashlib.sha1(repr(key).encode()).hexdigest()[:10]
        path = os.path.join(ROOT, "replays", "%s-%s.json" % (prop, h))
        rec = {"property": prop, "module": v.get("module", modname),
               "call": v["call"], "condition": v["condition"],
               "found_by": v["source"], "result": v["result"],
               "env": {"VERIF_TIER_EFFECTIVE": tier, "VERIF_KF": env["VERIF_KF"]},
               "how": "cd /verif && ./check replay %s" % path}
        with open(path, "w") as fh:
            json.dump(rec, fh, indent=1)
        v["replay"] = path
        msg = "VIOLATION property=%s replay=%s" % (prop, path)
        print(msg, flush=True)
        print("  condition=%s call=%s -> %s %s" % (
            v["condition"], v["call"], v["result"]["outcome"],
            v["result"].get("exception", "")), flush=True)
        samples.insert(0, {"violation": v["call"], "outcome": v["result"]})

    for ln in lines:
        if not ln.startswith("KNOWN-FINDING"):
            print(ln)
    for h in harness_errors:
        print("HARNESS-ERROR property=%s %s" % (prop, h))

    for c in conds:
        for expr in c.get("smoke", [])[:2]:
            if len(samples) < 16:
                samples.append({"condition": c["fn"], "smoke_call": expr})

    wall = round(time.time() - t_start, 2)
    n_viol = len(seen)
    ev = {
        "property_id": prop, "tier": tier, "seed": seed,
        "level": "model_checking",
        "coverage": {
            "states": max(states, 1), "transitions": max(transitions, 1),
            "traces_validated_against_impl": validated,
            "samples": samples or [{"note": "no witness recorded"}],
            "evaluations": max(states, 1),
            "distinct_nontrivial": max(sum((e.get("confirmed_paths") or 0)
                                           for e in cond_report), 2),
            "rule": "states = execution paths completed by the symbolic engine "
                    "(one path = one equivalence class of inputs taking the same "
                    "branches); transitions = solver-decided branch decisions; "
                    "distinct_nontrivial = paths that satisfied every precondition "
                    "and whose negated assertion was unsatisfiable",
            "obligations": obligations, "discharged": discharged,
            "inconclusive": inconclusive,
            "solver_time_s": round(solver_time, 2),
            "functions_encoded": getattr(mod, "FUNCTIONS", []),
            "bounds": getattr(mod, "BOUNDS", {}),
            "conditions": cond_report,
            "stubs": getattr(mod, "STUBS", []),
            "outside_claim": getattr(mod, "OUTSIDE", []),
            "known_findings": kf_report,
            "smoke": smoke_report,
            "harness_errors": harness_errors,
            "cpu_budget": {"nominal_total_s": total, "cap_s": cap, "scale": round(scale, 3)},
            "exhaustive": bool(obligations and discharged == obligations),
            "engine": getattr(mod, "ENGINE", "CrossHair 0.0.110 (symbolic execution "
                              "of the real lena byte-code) + z3"),
        },
        "assumptions": getattr(mod, "ASSUMPTIONS", []),
        "wall_s": wall, "violations": n_viol,
    }
    os.makedirs(os.path.join(ROOT, "evidence"), exist_ok=True)
    with open(os.path.join(ROOT, "evidence", prop + ".json"), "w") as fh:
        json.dump(ev, fh, indent=1, default=str)
    print("SUMMARY property=%s tier=%s obligations=%d discharged=%d inconclusive=%d "
          "violations=%d paths=%d decisions=%d solver_s=%.1f wall_s=%.1f" % (
              prop, tier, obligations, discharged, inconclusive, n_viol,
              states, transitions, solver_time, wall))
    if n_viol:
        return 1
    if harness_errors:
        return 2
    return 0


if __name__ == "__main__":
    sys.exit(main(sys.argv[1:]))
