"""One CrossHair analysis (one condition, one shard) in its own process.

usage: python -m verif.ch_worker <harness module> <function> <cpu seconds>

Environment (set by verif.run): VERIF_TIER_EFFECTIVE, VERIF_SHARD=i/N,
VERIF_TWIN, VERIF_KF, VERIF_SEED.  Prints one JSON object on the last line
of stdout.
"""
import collections
import importlib
import json
import os
import random
import sys
import time


def main(argv):
    modname, fname, budget = argv[0], argv[1], float(argv[2])
    per_path = float(os.environ.get("VERIF_PER_PATH", "30"))
    t0w, t0c = time.time(), time.process_time()
    seed = int(os.environ.get("VERIF_SEED", "0") or 0)
    random.seed(seed)

    import z3
    from crosshair.core_and_libs import analyze_function
    from crosshair.core import analyze_calltree
    from crosshair.condition_parser import condition_parser
    from crosshair.options import AnalysisOptionSet
    from crosshair import statespace as ss

    stats = collections.Counter()
    solver_time = [0.0]

    _orig_check = z3.Solver.check

    def timed_check(self, *a, **k):
        t = time.perf_counter()
        try:
            return _orig_check(self, *a, **k)
        finally:
            solver_time[0] += time.perf_counter() - t
            stats["solver_checks"] += 1

    z3.Solver.check = timed_check

    _orig_choose = ss.StateSpace.choose_possible

    def counted_choose(self, *a, **k):
        stats["decisions"] += 1
        return _orig_choose(self, *a, **k)

    ss.StateSpace.choose_possible = counted_choose

    # CrossHair may replace a call of an annotated function on symbolic
    # arguments (its own builtin wrappers such as repr/len included) by a fresh
    # "proxy return" value and reconcile at the end of the path; when the path
    # has meanwhile compared that value with something else the attempt is
    # thrown away (IgnoreAttempt "Reconcile short circuit") and the same
    # inputs are explored again.  No harness relies on contracts of callees,
    # so every call is interpreted.
    import crosshair.core as ch_core
    if os.environ.get("VERIF_SHORTCIRCUIT", "") != "1":
        ch_core.consider_shortcircuit = lambda *a, **k: None

    _orig_fmv = ss.StateSpace.find_model_value

    def counted_fmv(self, *a, **k):
        stats["realizations"] += 1
        return _orig_fmv(self, *a, **k)

    ss.StateSpace.find_model_value = counted_fmv

    mod = importlib.import_module(modname)
    fn = getattr(mod, fname)
    out = {"module": modname, "function": fname,
           "shard": os.environ.get("VERIF_SHARD", "0/1"),
           "twin": os.environ.get("VERIF_TWIN", "") == "1"}
    opts = AnalysisOptionSet(per_condition_timeout=budget,
                             per_path_timeout=per_path,
                             max_uninteresting_iterations=sys.maxsize)
    checkables = list(analyze_function(fn, opts))
    if len(checkables) != 1:
        out.update(status="HARNESS_ERROR",
                   detail="expected one condition, got %d" % len(checkables))
        print(json.dumps(out))
        return 0
    chk = checkables[0]
    o = chk.options
    o.deadline = time.process_time() + budget
    o.stats = collections.Counter()
    with condition_parser(o.analysis_kind):
        res = analyze_calltree(o, chk.conditions)
    msgs = [{"state": m.state.name, "message": m.message,
             "traceback": (m.traceback or "")[-1500:]} for m in res.messages]
    status = res.verification_status.name
    if any(m["state"] == "PRE_UNSAT" for m in msgs):
        status = "PRE_UNSAT"
    out.update(status=status,
               confirmed_paths=res.num_confirmed_paths,
               paths=int(o.stats.get("num_paths", 0)),
               decisions=int(stats["decisions"]),
               realizations=int(stats["realizations"]),
               solver_checks=int(stats["solver_checks"]),
               solver_time_s=round(solver_time[0], 3),
               cpu_s=round(time.process_time() - t0c, 2),
               wall_s=round(time.time() - t0w, 2),
               messages=msgs,
               pre=[p.expr_source for p in chk.conditions.pre],
               post=[p.expr_source for p in chk.conditions.post])
    print(json.dumps(out))
    return 0


if __name__ == "__main__":
    sys.exit(main(sys.argv[1:]))
