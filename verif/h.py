"""Helpers imported by every harness (kept tiny: they run under the tracer).

TIER / bounds    per-tier bound tables (bounds are preconditions, printed
                 in evidence)
in_shard         partition of the bound between worker processes
ok               the final assertion of a condition; in "twin" mode it is
                 False, so that the reachability twin of a condition is
                 REFUTED exactly when some path satisfies the preconditions
                 and reaches the assertion
kf               is a known finding (carve-out) active for this run?
"""
import os
import types

TIER = os.environ.get("VERIF_TIER_EFFECTIVE", "quick")
TWIN = os.environ.get("VERIF_TWIN", "") == "1"
_KF = frozenset(x for x in os.environ.get("VERIF_KF", "").split(",") if x)


def _shard():
    s = os.environ.get("VERIF_SHARD", "0/1")
    i, n = s.split("/")
    return int(i), int(n)


SHARD_I, SHARD_N = _shard()


def bounds(quick, thorough):
    """Bound table of the effective tier, as a namespace."""
    d = dict(quick)
    if TIER == "thorough":
        d.update(thorough)
    return types.SimpleNamespace(**d)


def in_shard(key):
    """True iff the (possibly symbolic) non-negative int *key* belongs to
    the shard of this worker.  Shards partition the bound: the conjunction
    of the shard verdicts is the verdict for the whole bound."""
    if SHARD_N == 1:
        return True
    return key % SHARD_N == SHARD_I


def ok(cond):
    """The assertion of a condition (see module docstring)."""
    if TWIN:
        return False
    return True if cond else False


def kf(name):
    """True iff known finding *name* is listed in known_findings.json as
    open AND its witness still fails on the current tree (decided by the
    orchestrator before the solver runs)."""
    return name in _KF


def cbool(x):
    """Concrete bool (rule 4 of DESIGN 1.1)."""
    return True if x else False


def choose(seq, i):
    """seq[i] for a (possibly symbolic) index, by an explicit if-chain so that
    the result is the concrete element on every path."""
    for k in range(len(seq)):
        if i == k:
            return seq[k]
    raise IndexError(i)


def concrete(i, lo, hi):
    """The concrete Python int equal to the (possibly symbolic) i in [lo, hi]."""
    for k in range(lo, hi + 1):
        if i == k:
            return k
    raise ValueError(i)
