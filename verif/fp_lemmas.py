"""IEEE-754 lemmas behind the "in-range guess" cut of C06 (DESIGN C06, layer K,
treatment 2).  The guess of get_bin_on_value_1d is

    shift = int(K * (float(V - A) / (B - A)))      with  A < V < B  (path condition)

Chain:  L1a  fl(V-A) > 0
        L1b  fl(V-A) <= fl(B-A)              (monotone rounding of subtraction)
        L2   0 < x <= y  =>  0 <= fl(x/y) <= 1
        L3   0 <= r <= 1 =>  0 <= fl(K*r) <= K      (K = 1..KMAX as doubles)
so that truncation gives an integer in [0, K].  All operands finite, no
overflow in the two subtractions (the property excludes overflow).
Each lemma is one unsat query in the theory of floating point (z3).
"""
import time

import z3


def _sort(bits):
    return {16: z3.FPSort(5, 11), 32: z3.FPSort(8, 24), 64: z3.FPSort(11, 53)}[bits]


def _finite(x):
    return z3.And(z3.Not(z3.fpIsNaN(x)), z3.Not(z3.fpIsInf(x)))


def _solve(assertions, timeout_s):
    s = z3.Solver()
    s.set("timeout", int(timeout_s * 1000))
    s.add(*assertions)
    t = time.perf_counter()
    r = str(s.check())
    dt = time.perf_counter() - t
    model = None
    if r == "sat":
        m = s.model()
        model = dict((str(d), str(m[d])) for d in m.decls())
    return r, round(dt, 2), model


def l1a(bits, timeout_s):
    S = _sort(bits)
    a, v = z3.FP("a", S), z3.FP("v", S)
    d = z3.fpSub(z3.RNE(), v, a)
    return _solve([_finite(a), _finite(v), z3.fpGT(v, a), _finite(d),
                   z3.Not(z3.fpGT(d, z3.FPVal(0.0, S)))], timeout_s)


def l1b(bits, timeout_s):
    S = _sort(bits)
    a, v, b = z3.FP("a", S), z3.FP("v", S), z3.FP("b", S)
    d1 = z3.fpSub(z3.RNE(), v, a)
    d2 = z3.fpSub(z3.RNE(), b, a)
    return _solve([_finite(a), _finite(v), _finite(b), z3.fpLT(a, v), z3.fpLT(v, b),
                   _finite(d1), _finite(d2), z3.Not(z3.fpLEQ(d1, d2))], timeout_s)


def l2(bits, timeout_s):
    S = _sort(bits)
    x, y = z3.FP("x", S), z3.FP("y", S)
    q = z3.fpDiv(z3.RNE(), x, y)
    zero, one = z3.FPVal(0.0, S), z3.FPVal(1.0, S)
    return _solve([_finite(x), _finite(y), z3.fpGT(x, zero), z3.fpLEQ(x, y),
                   z3.Not(z3.And(z3.fpGEQ(q, zero), z3.fpLEQ(q, one)))], timeout_s)


def l3(bits, kmax, timeout_s):
    S = _sort(bits)
    r = z3.FP("r", S)
    zero, one = z3.FPVal(0.0, S), z3.FPVal(1.0, S)
    bad = []
    for k in range(1, kmax + 1):
        kk = z3.FPVal(float(k), S)
        p = z3.fpMul(z3.RNE(), kk, r)
        bad.append(z3.Not(z3.And(z3.fpGEQ(p, zero), z3.fpLEQ(p, kk))))
    return _solve([_finite(r), z3.fpGEQ(r, zero), z3.fpLEQ(r, one), z3.Or(*bad)], timeout_s)


def rounding_witness(n, cell, timeout_s):
    """Doubles arr[0] < ... < arr[n-1] and val inside cell `cell` (not the top
    one) for which the first interpolation guess of get_bin_on_value_1d lands
    on ind_max although val < arr[ind_max]: fl(val - arr[0]) == fl(arr[-1] -
    arr[0]), so the quotient is exactly 1.0.  Returns (result, seconds,
    (val, arr) as Python floats or None)."""
    import struct
    S = _sort(64)
    rm = z3.RNE()
    arr = [z3.FP("e%d" % i, S) for i in range(n)]
    val = z3.FP("val", S)
    cons = [_finite(x) for x in arr + [val]]
    cons += [z3.fpLT(arr[i], arr[i + 1]) for i in range(n - 1)]
    cons += [z3.fpLT(arr[cell], val) if cell > 0 else z3.fpLT(arr[0], val), z3.fpLT(val, arr[cell + 1])]
    d1 = z3.fpSub(rm, val, arr[0])
    d2 = z3.fpSub(rm, arr[n - 1], arr[0])
    cons += [_finite(d2), z3.fpEQ(d1, d2)]
    big, small = z3.FPVal(1e30, S), z3.FPVal(1e-30, S)
    cons += [z3.fpLT(z3.fpAbs(x), big) for x in arr]
    cons += [z3.fpGT(z3.fpSub(rm, arr[i + 1], arr[i]), small) for i in range(1, n - 1)]
    s = z3.Solver()
    s.set("timeout", int(timeout_s * 1000))
    s.add(*cons)
    t = time.perf_counter()
    r = str(s.check())
    dt = round(time.perf_counter() - t, 2)
    if r != "sat":
        return r, dt, None
    m = s.model()

    def tofloat(x):
        bv = m.eval(z3.fpToIEEEBV(x), model_completion=True).as_long()
        return struct.unpack(">d", struct.pack(">Q", bv))[0]
    return r, dt, (tofloat(val), [tofloat(x) for x in arr])


def neighbour_witness(n, edge, side, timeout_s):
    """Doubles arr[0] < ... < arr[n-1] (positive, moderate magnitude) and val =
    the floating-point neighbour of arr[edge] just below (side=-1) or just
    above (side=+1) it, or the edge itself (side=0).  Returns (result,
    seconds, (val, arr) or None)."""
    import struct
    S = _sort(64)
    arr = [z3.FP("e%d" % i, S) for i in range(n)]
    val = z3.FP("val", S)
    cons = [_finite(x) for x in arr + [val]]
    cons += [z3.fpLT(arr[i], arr[i + 1]) for i in range(n - 1)]
    cons += [z3.fpGT(arr[0], z3.FPVal(1e-3, S)), z3.fpLT(arr[n - 1], z3.FPVal(1e6, S))]
    bv_e, bv_v = z3.fpToIEEEBV(arr[edge]), z3.fpToIEEEBV(val)
    if side == 0:
        cons.append(z3.fpEQ(val, arr[edge]))
    else:
        cons.append(bv_v == bv_e + side)      # positive doubles: adjacent bit patterns
    s = z3.Solver()
    s.set("timeout", int(timeout_s * 1000))
    s.add(*cons)
    t = time.perf_counter()
    r = str(s.check())
    dt = round(time.perf_counter() - t, 2)
    if r != "sat":
        return r, dt, None
    m = s.model()

    def tofloat(x):
        bv = m.eval(z3.fpToIEEEBV(x), model_completion=True).as_long()
        return struct.unpack(">d", struct.pack(">Q", bv))[0]
    return r, dt, (tofloat(val), [tofloat(x) for x in arr])
