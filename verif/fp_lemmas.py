"""IEEE-754 lemmas behind the "in-range guess" cut of C06 (DESIGN C06, layer K,
treatment 2).  The guess of get_bin_on_value_1d is

    shift = int(K * (float(V - A) / (B - A)))      with  A < V < B  (path condition)

Chain:  L1a  fl(V-A) > 0
        L1b  fl(V-A) <= fl(B-A)              (monotone rounding of subtraction)
        L2   0 < x <= y  =>  0 <= fl(x/y) <= 1
        L3   0 <= r <= 1 =>  0 <= fl(K*r) <= K      (K = 1..KMAX as doubles)
so that truncation gives an integer in [0, K].  All operands finite, no
overflow in the two subtractions (the property excludes overflow).
Each lemma is one unsat query in the theory of floating point (z3).
"""
import time

import z3


def _sort(bits):
    return {16: z3.FPSort(5, 11), 32: z3.FPSort(8, 24), 64: z3.FPSort(11, 53)}[bits]


def _finite(x):
    return z3.And(z3.Not(z3.fpIsNaN(x)), z3.Not(z3.fpIsInf(x)))


def _solve(assertions, timeout_s):
    s = z3.Solver()
    s.set("timeout", int(timeout_s * 1000))
    s.add(*assertions)
    t = time.perf_counter()
    r = str(s.check())
    dt = time.perf_counter() - t
    model = None
    if r == "sat":
        m = s.model()
        model = dict((str(d), str(m[d])) for d in m.decls())
    return r, round(dt, 2), model


def l1a(bits, timeout_s):
    S = _sort(bits)
    a, v = z3.FP("a", S), z3.FP("v", S)
    d = z3.fpSub(z3.RNE(), v, a)
    return _solve([_finite(a), _finite(v), z3.fpGT(v, a), _finite(d),
                   z3.Not(z3.fpGT(d, z3.FPVal(0.0, S)))], timeout_s)


def l1b(bits, timeout_s):
    S = _sort(bits)
    a, v, b = z3.FP("a", S), z3.FP("v", S), z3.FP("b", S)
    d1 = z3.fpSub(z3.RNE(), v, a)
    d2 = z3.fpSub(z3.RNE(), b, a)
    return _solve([_finite(a), _finite(v), _finite(b), z3.fpLT(a, v), z3.fpLT(v, b),
                   _finite(d1), _finite(d2), z3.Not(z3.fpLEQ(d1, d2))], timeout_s)


def l2(bits, timeout_s):
    S = _sort(bits)
    x, y = z3.FP("x", S), z3.FP("y", S)
    q = z3.fpDiv(z3.RNE(), x, y)
    zero, one = z3.FPVal(0.0, S), z3.FPVal(1.0, S)
    return _solve([_finite(x), _finite(y), z3.fpGT(x, zero), z3.fpLEQ(x, y),
                   z3.Not(z3.And(z3.fpGEQ(q, zero), z3.fpLEQ(q, one)))], timeout_s)


def l3(bits, kmax, timeout_s):
    S = _sort(bits)
    r = z3.FP("r", S)
    zero, one = z3.FPVal(0.0, S), z3.FPVal(1.0, S)
    bad = []
    for k in range(1, kmax + 1):
        kk = z3.FPVal(float(k), S)
        p = z3.fpMul(z3.RNE(), kk, r)
        bad.append(z3.Not(z3.And(z3.fpGEQ(p, zero), z3.fpLEQ(p, kk))))
    return _solve([_finite(r), z3.fpGEQ(r, zero), z3.fpLEQ(r, one), z3.Or(*bad)], timeout_s)
