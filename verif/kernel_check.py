"""Obligations of engine K for get_bin_on_value_1d (see kernel.py, DESIGN C06)."""
import time

import z3

from verif import kernel


def _check(solver_timeout_ms, *assertions):
    s = z3.Solver()
    s.set("timeout", int(solver_timeout_ms))
    for a in assertions:
        s.add(a)
    t = time.perf_counter()
    r = s.check()
    dt = time.perf_counter() - t
    return str(r), (s.model() if str(r) == "sat" else None), dt, s


def obligations(path, name, n, mode, timeout_s):
    """Discharge the obligations for length n.  Returns a list of dicts
    {obligation, n, mode, result (unsat/sat/unknown/unsupported), seconds, model}."""
    out = []
    try:
        ex, state = kernel.translate(path, name, n, mode)
    except kernel.Unsupported as e:
        return [dict(obligation="translate", n=n, mode=mode, result="unsupported",
                     detail=str(e), seconds=0.0)], None
    if mode == "robust" and not ex.t.guess_sites:
        return [dict(obligation="translate", n=n, mode=mode, result="unsupported",
                     detail="no statement of the shape int(A * (float(P) / Q))", seconds=0.0)], ex
    pre = kernel.increasing(ex)
    facts = ex.t.facts
    tmo = timeout_s * 1000
    # (0) reachability: the function can return the reference on some input,
    #     and the first guess site is reachable
    r, m, dt, _ = _check(tmo, pre, *facts, z3.Not(state["$unfinished"]),
                         state["$retval"] == kernel.reference_index(ex))
    out.append(dict(obligation="reachable-return", n=n, mode=mode, expect="sat", result=r,
                    seconds=round(dt, 3)))
    if ex.t.guess_sites and n > 2:
        g0 = ex.t.guess_sites[0]
        r, m, dt, _ = _check(tmo, pre, *facts, g0["guard"])
        out.append(dict(obligation="reachable-guess", n=n, mode=mode, expect="sat", result=r,
                        seconds=round(dt, 3)))
    # (i) every subscript inside [0, n) / no division by zero, each with the
    #     facts introduced before it only (a later fact must not mask it)
    viol = []
    for (g, cond, desc, nf) in ex.t.bounds:
        viol.append((nf, z3.And(g, z3.Not(cond)), desc))
    for (g, q, nf) in ex.t.div_sites:
        viol.append((nf, z3.And(g, q == 0), "division by zero"))
    by_nf = {}
    for nf, v, desc in viol:
        by_nf.setdefault(nf, []).append((v, desc))
    res, total, model, which = "unsat", 0.0, None, None
    for nf in sorted(by_nf):
        r, m, dt, _ = _check(tmo, pre, *facts[:nf], z3.Or(*[v for v, _ in by_nf[nf]]))
        total += dt
        if r == "sat":
            res, model = "sat", m
            which = [d for v, d in by_nf[nf] if z3.is_true(m.eval(v, model_completion=True))]
            break
        if r != "unsat":
            res = "unknown"
    o = dict(obligation="index-in-range+no-zero-division", n=n, mode=mode, expect="unsat",
             result=res, seconds=round(total, 3), sites=len(viol))
    if model is not None:
        o["model"] = kernel.model_inputs(model, ex)
        o["which"] = which
    out.append(o)
    # (ii) unwinding assertion: returned within n iterations
    r, m, dt, _ = _check(tmo, pre, *facts, state["$unfinished"])
    o = dict(obligation="unwinding(returns within %d iterations)" % ex.unroll, n=n, mode=mode,
             expect="unsat", result=r, seconds=round(dt, 3))
    if m is not None:
        o["model"] = kernel.model_inputs(m, ex)
    out.append(o)
    # (iii) the returned index is the reference
    r, m, dt, _ = _check(tmo, pre, *facts, z3.Not(state["$unfinished"]),
                         state["$retval"] != kernel.reference_index(ex))
    o = dict(obligation="result == #edges<=val - 1", n=n, mode=mode, expect="unsat", result=r,
             seconds=round(dt, 3))
    if m is not None:
        o["model"] = kernel.model_inputs(m, ex)
        o["returned"] = str(m.eval(state["$retval"], model_completion=True))
    out.append(o)
    return out, ex


def evaluate_concrete(path, name, val, arr, timeout_s=20):
    """Value of the translated function (exact mode) on concrete inputs -
    used to validate the translator against the real function."""
    from fractions import Fraction
    ex, state = kernel.translate(path, name, len(arr), "exact")
    cons = [ex.val == z3.RealVal(str(Fraction(val)))]
    cons += [a == z3.RealVal(str(Fraction(c))) for a, c in zip(ex.arr, arr)]
    r, m, dt, _ = _check(timeout_s * 1000, *cons, *ex.t.facts)
    if r != "sat":
        return None
    if z3.is_true(m.eval(state["$unfinished"], model_completion=True)):
        return "unfinished"
    return m.eval(state["$retval"], model_completion=True).as_long()


def smtlib(path, name, n, mode):
    """The result obligation as SMT-LIB2 text (for a second solver)."""
    ex, state = kernel.translate(path, name, n, mode)
    s = z3.Solver()
    s.add(kernel.increasing(ex), *ex.t.facts, z3.Not(state["$unfinished"]),
          state["$retval"] != kernel.reference_index(ex))
    return s.to_smt2()
