"""Run one non-CrossHair condition (engine K, FP lemmas) in its own process.

usage: python -m verif.custom_worker <harness module> <function> <seconds>

The function receives the budget in seconds and returns a dict in the worker
result format: status (CONFIRMED / REFUTED / UNKNOWN), paths, decisions,
solver_checks, solver_time_s, messages [{state, message, call}], queries.
"""
import importlib
import json
import sys
import time
import traceback


def main(argv):
    modname, fname, budget = argv[0], argv[1], float(argv[2])
    t0w, t0c = time.time(), time.process_time()
    out = {"module": modname, "function": fname}
    try:
        mod = importlib.import_module(modname)
        res = getattr(mod, fname)(budget)
        out.update(res)
    except Exception:  # noqa: BLE001
        out.update(status="CRASH", detail=traceback.format_exc()[-2000:])
    out.setdefault("cpu_s", round(time.process_time() - t0c, 2))
    out.setdefault("wall_s", round(time.time() - t0w, 2))
    print(json.dumps(out, default=str))
    return 0


if __name__ == "__main__":
    sys.exit(main(sys.argv[1:]))
