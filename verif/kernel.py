"""Engine K - AST -> SMT translation of numeric kernels (merged guarded
symbolic execution).

The function is parsed from the *current* source file on every run.  The
supported subset is what `get_bin_on_value_1d` needs: Assign, AugAssign, If /
elif / else, `while True` with continue / return, Compare, BinOp(+ - * /),
Subscript with a symbolic index, len, int, float, Names and int constants.
Anything else raises Unsupported and the obligation is reported inconclusive.

Semantics: Python int -> SMT Int; array elements and the searched value ->
Real (comparison of finite floats / ints is exact in Python, so ordering over
the reals is faithful).  Paths are merged: every assignment is guarded by the
current path condition; `$ret`, `$retval`, `$cont` flags encode return and
continue; array reads with a symbolic index become ite chains over the
concrete length N and add the obligation 0 <= index < N (Python would raise,
or wrap a negative index).  `while True` is unrolled `unroll` times and the
unwinding assertion "the function has returned" is emitted.

The statement `x = int(A * (float(P) / Q))` (the interpolation guess) is
handled in two ways (mode):
  exact   real-number semantics: int() is truncation of the exact quotient,
          linearised by case-splitting the bounded integers A and the result;
  robust  the result is an arbitrary integer in [0, A] - what is then proved
          holds for every in-range guess, so only the in-range fact depends
          on floating point (fp_lemmas.py).
If the statement does not have that shape, `robust` is not applicable.
"""
import ast
import inspect
import textwrap

import z3


class Unsupported(Exception):
    pass


class Translation(object):
    def __init__(self):
        self.bounds = []        # (guard, condition) : index-in-range obligations
        self.facts = []         # constraints introduced by the encoding
        self.guess_sites = []   # dicts describing each int(A*(float(P)/Q)) site
        self.div_sites = []     # (guard, divisor) : divisor must be non-zero
        self.fresh = 0
        self.notes = []


def _is_name(node, name):
    return isinstance(node, ast.Name) and node.id == name


class Executor(object):
    def __init__(self, fn_ast, n, mode, unroll):
        self.fn = fn_ast
        self.n = n
        self.mode = mode
        self.unroll = unroll
        self.t = Translation()
        self.arr = [z3.Real("arr_%d" % i) for i in range(n)]
        self.val = z3.Real("val")
        self.iteration = 0

    # ---------------------------------------------------------------- helpers
    def fresh_int(self, stem):
        self.t.fresh += 1
        return z3.Int("%s_%d" % (stem, self.t.fresh))

    def guard(self, state, g):
        return z3.And(g, z3.Not(state["$ret"]), z3.Not(state["$cont"]))

    def is_int(self, e):
        return z3.is_expr(e) and e.sort() == z3.IntSort()

    def to_real(self, e):
        if isinstance(e, int):
            return z3.RealVal(e)
        if self.is_int(e):
            return z3.ToReal(e)
        return e

    def to_expr(self, e):
        if isinstance(e, bool):
            return z3.BoolVal(e)
        if isinstance(e, int):
            return z3.IntVal(e)
        return e

    def unify(self, a, b):
        a, b = self.to_expr(a), self.to_expr(b)
        if a.sort() == b.sort():
            return a, b
        return self.to_real(a), self.to_real(b)

    # ------------------------------------------------------------ expressions
    def ev(self, node, state, g):
        if isinstance(node, ast.Constant):
            if isinstance(node.value, bool):
                return z3.BoolVal(node.value)
            if isinstance(node.value, int):
                return z3.IntVal(node.value)
            if isinstance(node.value, float):
                return z3.RealVal(repr(node.value))
            raise Unsupported("constant %r" % (node.value,))
        if isinstance(node, ast.Name):
            if node.id == "val":
                return self.val
            if node.id in state:
                return state[node.id]
            raise Unsupported("name %s" % node.id)
        if isinstance(node, ast.UnaryOp) and isinstance(node.op, ast.USub):
            return -self.ev(node.operand, state, g)
        if isinstance(node, ast.UnaryOp) and isinstance(node.op, ast.Not):
            return z3.Not(self.ev(node.operand, state, g))
        if isinstance(node, ast.BoolOp):
            vals = [self.ev(v, state, g) for v in node.values]
            return z3.And(*vals) if isinstance(node.op, ast.And) else z3.Or(*vals)
        if isinstance(node, ast.BinOp):
            return self.binop(node, state, g)
        if isinstance(node, ast.Compare):
            left = self.ev(node.left, state, g)
            conj = []
            for op, comp in zip(node.ops, node.comparators):
                right = self.ev(comp, state, g)
                a, b = self.unify(left, right)
                if isinstance(op, ast.Lt):
                    conj.append(a < b)
                elif isinstance(op, ast.LtE):
                    conj.append(a <= b)
                elif isinstance(op, ast.Gt):
                    conj.append(a > b)
                elif isinstance(op, ast.GtE):
                    conj.append(a >= b)
                elif isinstance(op, ast.Eq):
                    conj.append(a == b)
                elif isinstance(op, ast.NotEq):
                    conj.append(a != b)
                else:
                    raise Unsupported("comparison %s" % type(op).__name__)
                left = right
            return z3.And(*conj) if len(conj) > 1 else conj[0]
        if isinstance(node, ast.Subscript):
            if not _is_name(node.value, "arr"):
                raise Unsupported("subscript of %s" % ast.dump(node.value))
            idx = node.slice
            if isinstance(idx, ast.Index):   # py<3.9
                idx = idx.value
            i = self.to_expr(self.ev(idx, state, g))
            if not self.is_int(i):
                raise Unsupported("non-integer index")
            eg = self.guard(state, g)
            self.t.bounds.append((eg, z3.And(i >= 0, i < self.n),
                                  "arr[%s] line %d" % (ast.unparse(idx), node.lineno),
                                  len(self.t.facts)))
            # Python semantics outside the range are an exception / a wrapped
            # negative index; inside the range: ite chain
            e = self.arr[self.n - 1]
            for k in range(self.n - 2, -1, -1):
                e = z3.If(i == k, self.arr[k], e)
            return e
        if isinstance(node, ast.Call) and isinstance(node.func, ast.Name):
            f = node.func.id
            if f == "len" and len(node.args) == 1 and _is_name(node.args[0], "arr"):
                return z3.IntVal(self.n)
            if f == "float" and len(node.args) == 1:
                return self.to_real(self.ev(node.args[0], state, g))
            if f == "int" and len(node.args) == 1:
                return self.int_call(node, state, g)
            raise Unsupported("call %s" % f)
        raise Unsupported(type(node).__name__)

    def binop(self, node, state, g):
        a = self.ev(node.left, state, g)
        b = self.ev(node.right, state, g)
        if isinstance(node.op, ast.Add):
            a, b = self.unify(a, b)
            return a + b
        if isinstance(node.op, ast.Sub):
            a, b = self.unify(a, b)
            return a - b
        if isinstance(node.op, ast.Mult):
            a, b = self.unify(a, b)
            if z3.is_int_value(a) or z3.is_int_value(b) or z3.is_rational_value(a) \
                    or z3.is_rational_value(b):
                return a * b
            raise Unsupported("non-linear product outside the guess shape")
        if isinstance(node.op, ast.Div):
            b = self.to_real(b)
            self.t.div_sites.append((self.guard(state, g), b, len(self.t.facts)))
            if z3.is_rational_value(b):
                return self.to_real(a) / b
            raise Unsupported("division by a symbolic value outside the guess shape")
        raise Unsupported("operator %s" % type(node.op).__name__)

    def match_guess(self, node):
        """int(A * (float(P) / Q)) or int((float(P) / Q) * A) -> (A, P, Q)."""
        arg = node.args[0]
        if not (isinstance(arg, ast.BinOp) and isinstance(arg.op, ast.Mult)):
            return None
        for a_node, q_node in ((arg.left, arg.right), (arg.right, arg.left)):
            if isinstance(q_node, ast.BinOp) and isinstance(q_node.op, ast.Div):
                p = q_node.left
                if isinstance(p, ast.Call) and isinstance(p.func, ast.Name) \
                        and p.func.id == "float" and len(p.args) == 1:
                    p = p.args[0]
                return a_node, p, q_node.right
        return None

    def int_call(self, node, state, g):
        m = self.match_guess(node)
        if m is None:
            inner = self.ev(node.args[0], state, g)
            if self.is_int(self.to_expr(inner)):
                return inner
            raise Unsupported("int() of a real expression outside the guess shape")
        a_node, p_node, q_node = m
        A = self.to_expr(self.ev(a_node, state, g))
        P = self.to_real(self.ev(p_node, state, g))
        Q = self.to_real(self.ev(q_node, state, g))
        if not self.is_int(A):
            raise Unsupported("guess multiplier is not an integer")
        eg = self.guard(state, g)
        s = self.fresh_int("shift")
        site = dict(guard=eg, A=A, P=P, Q=Q, s=s, iteration=self.iteration,
                    src=ast.unparse(node), lineno=node.lineno)
        self.t.guess_sites.append(site)
        self.t.div_sites.append((eg, Q, len(self.t.facts)))
        n = self.n
        if self.mode == "robust":
            self.t.facts.append(z3.Implies(eg, z3.And(s >= 0, s <= A)))
            return s
        # exact real semantics, linearised: A in [-n, n], result j in [-(n+1), n+1]
        cons = []
        lim = n + 1
        for k in range(-n, n + 1):
            num = k * P
            for j in range(-lim, lim + 1):
                pos = z3.And(j * Q <= num, num < (j + 1) * Q) if j >= 0 else \
                    z3.And((j - 1) * Q < num, num <= j * Q)
                neg = z3.And(j * Q >= num, num > (j + 1) * Q) if j >= 0 else \
                    z3.And((j - 1) * Q > num, num >= j * Q)
                # truncation toward zero of x = num / Q
                if j == 0:
                    pos = z3.And(-Q < num, num < Q)
                    neg = z3.And(-Q > num, num > Q)
                cons.append(z3.Implies(z3.And(A == k, s == j),
                                       z3.Or(z3.And(Q > 0, pos), z3.And(Q < 0, neg))))
            # |x| beyond the table: only the sign/magnitude is kept
            cons.append(z3.Implies(z3.And(A == k, s > lim),
                                   z3.Or(z3.And(Q > 0, num >= lim * Q),
                                         z3.And(Q < 0, num <= lim * Q))))
            cons.append(z3.Implies(z3.And(A == k, s < -lim),
                                   z3.Or(z3.And(Q > 0, num <= -lim * Q),
                                         z3.And(Q < 0, num >= -lim * Q))))
        self.t.facts.append(z3.Implies(eg, z3.And(*cons)))
        # A itself must be inside the linearisation table
        self.t.bounds.append((eg, z3.And(A >= -n, A <= n),
                              "guess multiplier within [-N, N] line %d" % node.lineno,
                              len(self.t.facts) - 1))
        return s

    # ------------------------------------------------------------- statements
    def assign(self, state, name, value, g):
        eg = self.guard(state, g)
        value = self.to_expr(value)
        if name in state:
            old = state[name]
            value, old = self.unify(value, old)
            state[name] = z3.If(eg, value, old)
        else:
            state[name] = value

    def block(self, stmts, state, g):
        for st in stmts:
            self.stmt(st, state, g)

    def stmt(self, st, state, g):
        if isinstance(st, ast.Expr) and isinstance(st.value, ast.Constant):
            return  # docstring
        if isinstance(st, ast.Assign):
            if len(st.targets) != 1 or not isinstance(st.targets[0], ast.Name):
                raise Unsupported("assignment target")
            self.assign(state, st.targets[0].id, self.ev(st.value, state, g), g)
            return
        if isinstance(st, ast.AugAssign):
            if not isinstance(st.target, ast.Name):
                raise Unsupported("augmented assignment target")
            fake = ast.BinOp(left=ast.Name(id=st.target.id, ctx=ast.Load()), op=st.op,
                             right=st.value)
            ast.copy_location(fake, st)
            ast.fix_missing_locations(fake)
            self.assign(state, st.target.id, self.ev(fake, state, g), g)
            return
        if isinstance(st, ast.If):
            c = self.ev(st.test, state, g)
            self.block(st.body, state, z3.And(g, c))
            self.block(st.orelse, state, z3.And(g, z3.Not(c)))
            return
        if isinstance(st, ast.Return):
            eg = self.guard(state, g)
            v = self.to_expr(self.ev(st.value, state, g))
            state["$retval"] = z3.If(eg, v, state["$retval"])
            state["$ret"] = z3.Or(state["$ret"], eg)
            return
        if isinstance(st, ast.Continue):
            state["$cont"] = z3.Or(state["$cont"], self.guard(state, g))
            return
        if isinstance(st, ast.While):
            t = st.test
            if not (isinstance(t, ast.Constant) and t.value in (True, 1)):
                raise Unsupported("while with a condition")
            for i in range(self.unroll):
                self.iteration = i
                state["$cont"] = z3.BoolVal(False)
                self.block(st.body, state, g)
            state["$cont"] = z3.BoolVal(False)
            # falling out of the unrolled loop without a return = not yet finished
            state["$unfinished"] = z3.And(g, z3.Not(state["$ret"]))
            state["$ret"] = z3.Or(state["$ret"], state["$unfinished"])
            return
        if isinstance(st, ast.Pass):
            return
        raise Unsupported("statement %s" % type(st).__name__)

    def run(self):
        args = [a.arg for a in self.fn.args.args]
        if args != ["val", "arr"]:
            raise Unsupported("signature %r" % (args,))
        state = {"$ret": z3.BoolVal(False), "$cont": z3.BoolVal(False),
                 "$retval": z3.IntVal(-99), "$unfinished": z3.BoolVal(False)}
        self.block(self.fn.body, state, z3.BoolVal(True))
        return state


def load_function(path, name):
    src = open(path).read()
    tree = ast.parse(src)
    for node in ast.walk(tree):
        if isinstance(node, ast.FunctionDef) and node.name == name:
            return node, ast.get_source_segment(src, node)
    raise Unsupported("function %s not found in %s" % (name, path))


def translate(path, name, n, mode, unroll=None):
    fn, src = load_function(path, name)
    ex = Executor(fn, n, mode, unroll if unroll is not None else n)
    state = ex.run()
    return ex, state


def reference_index(ex):
    """Number of edges not greater than val, minus one."""
    total = z3.IntVal(-1)
    for a in ex.arr:
        total = total + z3.If(a <= ex.val, 1, 0)
    return total


def increasing(ex):
    return z3.And(*[ex.arr[i] < ex.arr[i + 1] for i in range(ex.n - 1)]) \
        if ex.n > 1 else z3.BoolVal(True)


def model_inputs(model, ex):
    """(val, arr) of a model as strings of exact rationals."""
    def q(e):
        v = model.eval(e, model_completion=True)
        return "%s/%s" % (v.numerator_as_long(), v.denominator_as_long())
    return q(ex.val), [q(a) for a in ex.arr]
