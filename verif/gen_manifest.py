"""Regenerate /verif/MANIFEST.json from the table below (python -m verif.gen_manifest)."""
import json
import os

ROOT = os.path.dirname(os.path.dirname(os.path.abspath(__file__)))

CH = ("bounded symbolic execution of the real lena code (CrossHair) with z3 deciding every "
      "branch and the final assertion; exhaustive over the stated bound when CONFIRMED; "
      "counterexamples replayed concretely")

# property -> (design section, level text, level note, technique)
CHECKS = {
    "C17": ("2/C17",
            "Slice/Reverse/Chain/CountFrom/RunningChunkBy are executed symbolically against list "
            "slicing and itertools; every (start, stop, step, length) inside the bound is decided "
            "by the solver, sharded on start; each shard must be CONFIRMED (path tree exhausted).",
            "PyDeque model of collections.deque; itertools C functions trusted on realised "
            "arguments; bounds in evidence.bounds; outside them nothing is claimed.",
            CH),
}

NOT_YET = {}

NOT_APPLICABLE = {}


def main():
    props = [json.loads(l) for l in open(os.path.join(ROOT, "properties.jsonl"))]
    checks = []
    na = []
    for p in props:
        pid = p["id"]
        if pid in CHECKS:
            ref, text, note, tech = CHECKS[pid]
            checks.append({
                "property_id": pid,
                "quick_cmd": "./check %s quick" % pid,
                "thorough_cmd": "./check %s thorough" % pid,
                "evidence_file": "/verif/evidence/%s.json" % pid,
                "replay_cmd_template": "./check replay {path}",
                "engine": "crosshair+z3",
                "level_claimed": {"category": "model_checking", "text": text,
                                  "design_ref": "DESIGN.md section " + ref},
                "level_note": note,
                "technique": tech,
            })
        elif pid in NOT_APPLICABLE:
            na.append({"property_id": pid, "reason": NOT_APPLICABLE[pid]})
        else:
            na.append({"property_id": pid,
                       "reason": NOT_YET.get(pid, "check planned in DESIGN.md section 2 but not "
                                             "built yet in this round; nothing is claimed")})
    man = {
        "version": 1,
        "setup_cmd": "./setup.sh",
        "hooks": {
            "guard": "LENA_VERIF",
            "enable": "no source hooks are needed: harnesses inject stubs (file system, "
                      "subprocess, deque, pickle stream) into lena modules from the checking "
                      "process; LENA_VERIF is reserved and unused",
            "baseline_off_cmd": "cd /repo && /venv/bin/python -m pytest -ra -q -p no:cacheprovider "
                                "--timeout=900 --continue-on-collection-errors",
            "source_commits": [],
            "add_only": True,
        },
        "engines": [
            {"name": "crosshair+z3", "path": "verif/ch_worker.py",
             "serves_properties": sorted(CHECKS),
             "kind_free_text": "CrossHair 0.0.110 symbolic execution of /repo's byte-code, z3 "
                               "deciding branches; driver verif/run.py shards the bound over 16 "
                               "worker processes, adds a reachability twin per condition and "
                               "replays every counterexample in plain CPython"},
            {"name": "kernel-K", "path": "verif/kernel.py",
             "serves_properties": [p for p in ("C06",) if p in CHECKS],
             "kind_free_text": "AST -> SMT translation (regenerated from /repo source per run) of "
                               "numeric kernels with merged guarded execution; z3, cross-checked"},
        ],
        "checks": checks,
        "not_applicable": na,
        "notes": "Exit 0 = held on everything explored (INCONCLUSIVE lines mark obligations the "
                 "solver did not finish inside the budget: never counted as success in evidence, "
                 "never as a violation). Exit 1 only with a VIOLATION line whose counterexample "
                 "reproduced against /repo in plain CPython. known_findings.json lists genuine "
                 "defects recorded or fixed.",
    }
    with open(os.path.join(ROOT, "MANIFEST.json"), "w") as fh:
        json.dump(man, fh, indent=1)
    print("MANIFEST.json: %d checks, %d not_applicable" % (len(checks), len(na)))


if __name__ == "__main__":
    main()
