"""Regenerate /verif/MANIFEST.json from the table below (python -m verif.gen_manifest)."""
import json
import os

ROOT = os.path.dirname(os.path.dirname(os.path.abspath(__file__)))

CH = ("bounded symbolic execution of the real lena code (CrossHair) with z3 deciding every "
      "branch and the final assertion; exhaustive over the stated bound when CONFIRMED; "
      "counterexamples replayed concretely")

# property -> (design section, level text, level note, technique)
CHECKS = {
    "C10": ("2/C10",
            "every selective element is run symbolically over every interleaving (one symbolic bit per "
            "position) of values it selects with foreign / disabled values on an in-memory world: foreign "
            "values must come out as the same objects in order, and outputs, file-system and converter "
            "logs must equal those of the run without them.",
            "FakeFS/FakeOS/FakeSubprocess/FakeJinjaEnv; selected values are the harness's.", CH),
    "C11": ("2/C11",
            "SplitIntoBins (1-d symbolic widths and coordinates, 2-d in thorough) vs a private copy of the "
            "analysis per cell fed with that cell's sub-flow; IterateBins/MapBins on 1-d and 2-d histograms.",
            "coordinates in a small stated range (histogram.__init__ formats its bins: C boundary); the 1-d "
            "bin search is the linear-scan reference (C06 layer K).", CH),
    "C12": ("2/C12",
            "engine R: histogram.scale/ScaleTo, add, get/set_nevents, graph.scale and hist_to_graph are "
            "run on symbolic REAL contents, edges, scales, weights and coordinates (proxy execution of the "
            "real code, one validity query in non-linear real arithmetic per obligation) for every shape in "
            "the bound; CrossHair: the same over concrete tagged contents with integer scales, plus "
            "iter_bins*/iter_cells index ranges and ToCSV round trips over shapes, namings, modes, ranges.",
            "engine R reasons over the reals ('up to rounding' is where floats meet it; counterexamples are "
            "replayed with floats and a 1e-9 tolerance); shapes concrete; CSV / iteration conditions use "
            "concrete tagged contents ('{:f}' is a C boundary).",
            "proxy symbolic execution of the real lena code over z3 reals with NRA validity queries "
            "(engine R, verif/symreal.py) and " + CH),
    "C19": ("2/C19",
            "histories of runs of the full output chain (one pipeline object reused or rebuilt per run) over "
            "an in-memory file system, converters and template environment: per run data/template change bits and a 4-bit deletion set are symbolic; "
            "after every run the content chain csv->tex->pdf->png must be consistent with the current data "
            "and template, unchanged runs must write/convert nothing, output.changed must be reported.",
            "the model of the file system/converters (pdf = PDF(tex|csv), png = PNG(pdf)); one known "
            "finding carved out (known_findings.json).", CH),
    "C20": ("2/C20",
            "clause 3 only: 47 public entry points (incl. static-context error paths of Sequence/Source/Split) with symbolic selectors over valid, boundary and "
            "ill-typed arguments are executed symbolically; no path may end in NameError, "
            "UnboundLocalError or AttributeError on a lena module.",
            "clauses 1-2 (names of __all__, import of a single subpackage) are finite import-configuration "
            "enumerations with no symbolic dimension: NOT decided by this technique and not claimed.", CH),
    "C01": ("2/C01",
            "Sequence/Source over an 18-kind element vocabulary (RunIf kinds with a reference of their own), "
            "6 bracketing/Source forms, empty nested Sequences at every position, reuse of the same object, "
            "and flows of symbolic ints are executed symbolically against a manual left-to-right composition "
            "that does not use Sequence, Source, Run or flatten; ill-typed arguments must raise LenaTypeError "
            "at construction; flatten keeps element identity and order.",
            "vocabulary of the harness; PyDeque stub; in the quick tier the context mode and the non-flat "
            "forms are tied to the parity of the kinds (stated in evidence.bounds).", CH),
    "C02": ("2/C02",
            "instrumented input iterators: pull traces of streaming pipelines, infinite sources, Split "
            "blocks and negative Slices are compared, for every number k of results taken, with a demand "
            "reference computed from list semantics.",
            "a pull is a delivered value; weak-reference liveness is not claimed (tracer holds references).",
            CH),
    "C04": ("2/C04",
            "Split.run (with an optional Source branch among the mutators and a branch kind whose elements "
            "share one user-supplied default object) / fill+compute / Zip of two or three in-place mutating "
            "branches vs the same branch alone on a deep copy; accumulator histories where every yielded context is poisoned and checked for "
            "shared containers (object identity) against filled values, earlier yields and an unpoisoned twin.",
            "flows without pre-existing aliasing; Count.compute's documented update of the filled context "
            "is outside the statement.", CH),
    "C05": ("2/C05",
            "the same chain pre* acc post? is driven symbolically as Sequence.run, as a Split branch "
            "(every bufsize) and as FillComputeSeq filled value by value; results and exception types "
            "must agree; the adapter x element-kind x method-name matrix is checked against a table "
            "transcribed from the adapter docstrings.",
            "Count wrapped in FillCompute where an accumulator is meant; Mean/VarianceMeanCount on a "
            "finite value domain under CrossHair and on symbolic reals under engine R (four drivers, "
            "8 pre kinds x 5 accumulators); Histogram with the linear-scan cut.",
            "proxy symbolic execution of the real lena code over z3 reals with NRA validity queries "
            "(engine R, verif/symreal.py) and " + CH),
    "C09": ("2/C09",
            "operation histories fill/compute/reset of Count, Sum, Mean, Vectorize, StoreFilled, GroupBy, "
            "Histogram with symbolic data and contexts vs the documented aggregate and vs a fresh element "
            "on the suffix after the last reset; engine R: Sum, Mean, VarianceMeanCount (corrected or not) "
            "and Vectorize of them on symbolic REAL data for every history string over {fill, compute, "
            "reset} in the bound (variance as a polynomial identity); DSum over a finite table of doubles "
            "and its precision loop for every required precision through a contract stub.",
            "Decimal is a C boundary (table + contract stub); GroupBy group order not part of the claim; "
            "engine R is over the reals.",
            "proxy symbolic execution of the real lena code over z3 reals with NRA validity queries "
            "(engine R, verif/symreal.py) and " + CH),
    "C13": ("2/C13",
            "programs of SetContext/StoreContext/UpdateContextFromStatic/MakeFilename/Write/Cache items "
            "in 5 tree shapes (flat, nested, Split, Source) with a symbolic cut are built symbolically; "
            "every observer must have seen the document-order fold of what precedes it, a later element "
            "or sibling branch must not change it, unresolved keys surface as LenaKeyError, static keys "
            "reach run-time values only through UpdateContextFromStatic.",
            "FakeFS for Cache/Write construction; observations after an unresolved key are unspecified.",
            CH),
    "C14": ("2/C14",
            "Compose vs Sequence vs nested getters and Combine for every ordered selection from a pool of "
            "5 typed variables, symbolic data, four kinds of pre-existing context, repeated application, "
            "variable descriptions compared with snapshots.",
            "pool of the harness (pairwise distinct non-empty types, nested extra attributes).", CH),
    "C15": ("2/C15",
            "selector specifications (12 shapes over 7 leaf kinds including a SelectContext object, both "
            "raise_on_error settings, own settings of nested selector objects) vs a reference evaluator; "
            "SelectContext with function, raising and class predicates; Filter; "
            "GroupBy over every accepted (group_by, merge) subset pair of the key alphabet vs a "
            "projection reference (two readings of 'key path' accepted).",
            "contexts concrete per path (json.dumps); key sets listing a key on both sides are outside.",
            CH),
    "C03": ("2/C03",
            "Split.run / fill+compute / fill+request / __call__ and Zip are executed symbolically for "
            "every branch list (9 branch kinds incl. an explicit Sequence holding an accumulator), bufsize, LenaStopFill index and flow of symbolic "
            "ints inside the bound and compared with a scheduler transcribed from the docstring.",
            "branch vocabulary of the harness (bare fill/request element so C16 does not leak in); "
            "bounds in evidence.bounds.", CH),
    "C06": ("2/C06",
            "get_bin_on_value_1d is translated from its AST into SMT for every length 2..N "
            "(index-in-range, unwinding and result obligations; exact-real and any-in-range-guess "
            "modes); IEEE lemmas close the float gap; histogram.fill/get_bin_on_value/Histogram are "
            "executed symbolically (CrossHair) for symbolic edges, coordinates and weights.",
            "reals for ordering; L1b (monotone rounded subtraction) assumed at binary64, discharged "
            "at binary16/32; the CH layer uses the linear-scan reference for the 1-d search (the "
            "equivalence proved by layer K).",
            "AST->SMT translation of the real kernel + z3 (engine K), z3 FP lemmas, and " + CH),
    "C07": ("2/C07",
            "intersection/difference/update_recursively/update_nested are executed symbolically on "
            "structured symbolic dictionaries (shape codes + unconstrained integer leaves + None/''/{}) "
            "against reference implementations and the algebraic laws; free-form dictionaries as "
            "time-capped bug hunting.",
            "keys {a,b}, depth <= 3; Python == on leaves.", CH),
    "C08": ("2/C08",
            "get_recursively/contains/str_to_dict/format_context/to_string/format_update_with/"
            "UpdateContext/DeleteContext executed symbolically over contexts, 16 key paths in three "
            "notations, every string over a 5..7 letter alphabet up to length 3..4, templates and the "
            "full option matrix; free symbolic strings as bug hunting.",
            "jinja2 runs untraced on realised inputs; leaves from a finite domain where rendering / "
            "JSON realise them.", CH),
    "C16": ("2/C16",
            "FillRequest.run, fill/request under every request schedule (one symbolic bit per fill), "
            "a single request after up to three buffered blocks, two live instances filled alternately, "
            "and Split around a FillRequest branch are executed symbolically against the per-block "
            "reference; two known findings carved out (see known_findings.json).",
            "BoundedList stub turns a never-returning call into a finite event; 'at most one block "
            "buffered' is not claimed for fill() without request() (documented behaviour).", CH),
    "C17": ("2/C17",
            "Slice/Reverse/Chain/CountFrom/RunningChunkBy are executed symbolically against list "
            "slicing and itertools; every (start, stop, step, length) inside the bound is decided "
            "by the solver, sharded on start; each shard must be CONFIRMED (path tree exhausted).",
            "PyDeque model of collections.deque; itertools C functions trusted on realised "
            "arguments; bounds in evidence.bounds; outside them nothing is claimed.",
            CH),
    "C18": ("2/C18",
            "Cache inside Sequence / hoisted by alter_sequence is executed symbolically over flows, "
            "crash points (consumer stop, upstream/downstream exception at value k) and histories of "
            "runs/recompute/drop on an in-memory file system.",
            "FakeFS/FakeOS and a record-list model of the pickle stream; values assumed picklable.",
            CH),
}

NOT_YET = {}

NOT_APPLICABLE = {}


def main():
    props = [json.loads(l) for l in open(os.path.join(ROOT, "properties.jsonl"))]
    checks = []
    na = []
    for p in props:
        pid = p["id"]
        if pid in CHECKS:
            ref, text, note, tech = CHECKS[pid]
            checks.append({
                "property_id": pid,
                "quick_cmd": "./check %s quick" % pid,
                "thorough_cmd": "./check %s thorough" % pid,
                "evidence_file": "/verif/evidence/%s.json" % pid,
                "replay_cmd_template": "./check replay {path}",
                "engine": "crosshair+z3",
                "level_claimed": {"category": "model_checking", "text": text,
                                  "design_ref": "DESIGN.md section " + ref},
                "level_note": note,
                "technique": tech,
            })
        elif pid in NOT_APPLICABLE:
            na.append({"property_id": pid, "reason": NOT_APPLICABLE[pid]})
        else:
            na.append({"property_id": pid,
                       "reason": NOT_YET.get(pid, "check planned in DESIGN.md section 2 but not "
                                             "built yet in this round; nothing is claimed")})
    man = {
        "version": 1,
        "setup_cmd": "./setup.sh",
        "hooks": {
            "guard": "LENA_VERIF",
            "enable": "no source hooks are needed: harnesses inject stubs (file system, "
                      "subprocess, deque, pickle stream) into lena modules from the checking "
                      "process; LENA_VERIF is reserved and unused",
            "baseline_off_cmd": "cd /repo && /venv/bin/python -m pytest -ra -q -p no:cacheprovider "
                                "--timeout=900 --continue-on-collection-errors",
            "source_commits": [],
            "add_only": True,
        },
        "engines": [
            {"name": "crosshair+z3", "path": "verif/ch_worker.py",
             "serves_properties": sorted(CHECKS),
             "kind_free_text": "CrossHair 0.0.110 symbolic execution of /repo's byte-code, z3 "
                               "deciding branches; driver verif/run.py shards the bound over 16 "
                               "worker processes, adds a reachability twin per condition and "
                               "replays every counterexample in plain CPython"},
            {"name": "reals-R", "path": "verif/symreal.py",
             "serves_properties": [p for p in ("C05", "C09", "C12") if p in CHECKS],
             "kind_free_text": "proxy objects holding z3 Real terms are passed through the real lena "
                               "functions; comparisons fork paths (feasibility by z3, depth-first "
                               "re-execution), obligations are validity queries in non-linear real "
                               "arithmetic; models are replayed with floats"},
            {"name": "kernel-K", "path": "verif/kernel.py",
             "serves_properties": [p for p in ("C06",) if p in CHECKS],
             "kind_free_text": "AST -> SMT translation (regenerated from /repo source per run) of "
                               "numeric kernels with merged guarded execution; z3, cross-checked"},
        ],
        "checks": checks,
        "not_applicable": na,
        "notes": "Exit 0 = held on everything explored (INCONCLUSIVE lines mark obligations the "
                 "solver did not finish inside the budget: never counted as success in evidence, "
                 "never as a violation). Exit 1 only with a VIOLATION line whose counterexample "
                 "reproduced against /repo in plain CPython. known_findings.json lists genuine "
                 "defects recorded or fixed.",
    }
    with open(os.path.join(ROOT, "MANIFEST.json"), "w") as fh:
        json.dump(man, fh, indent=1)
    print("MANIFEST.json: %d checks, %d not_applicable" % (len(checks), len(na)))


if __name__ == "__main__":
    main()
