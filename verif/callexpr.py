"""Evaluate one harness call in plain CPython (no CrossHair) against /repo.

usage: python -m verif.callexpr <harness module> '<call expression>'
       python -m verif.callexpr --file <replay.json>

Prints one JSON line {"outcome": "true" | "false" | "raises", ...}; with
--file the exit status is 1 when the recorded violation still reproduces.
"""
import importlib
import json
import sys
import traceback


def evaluate(modname, expr):
    mod = importlib.import_module(modname)
    ns = dict(vars(mod))
    try:
        val = eval(expr, ns)
    except Exception as e:  # noqa: BLE001 - an undeclared exception is a failure
        return {"outcome": "raises", "exception": type(e).__name__,
                "detail": str(e)[:500],
                "traceback": traceback.format_exc()[-2500:]}
    if val is True:
        return {"outcome": "true"}
    if val is False:
        return {"outcome": "false"}
    return {"outcome": "other", "detail": repr(val)[:300]}


def main(argv):
    if argv[0] == "--file":
        rec = json.load(open(argv[1]))
        import os
        for k, v in rec.get("env", {}).items():
            os.environ[k] = v
        res = evaluate(rec["module"], rec["call"])
        print(json.dumps(res))
        return 1 if res["outcome"] in ("false", "raises") else 0
    res = evaluate(argv[0], argv[1])
    print(json.dumps(res))
    return 0


if __name__ == "__main__":
    sys.exit(main(sys.argv[1:]))
