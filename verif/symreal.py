"""Engine R - symbolic execution of the real lena code over the reals.

CrossHair models floats as reals too, but every product or quotient of two
symbolic values makes its queries non-linear and its general-purpose solver
configuration answers "unknown" (DESIGN C12: "Not confirmed" after 120 s).
Engine R is a much smaller executor for exactly that kind of code - numeric
kernels whose control flow depends on a few comparisons and whose values are
polynomials / rational functions of the inputs:

* symbolic numbers are proxy objects (`SR`) holding a z3 `Real` term; the
  *real* lena functions from /repo are called with them (nothing is
  translated or modelled - the byte-code that runs is lena's), arithmetic
  builds terms, a comparison builds a symbolic boolean (`SB`);
* when Python asks an `SB` for its truth value (an `if`, `and`, `max`, ...)
  the path forks: both sides are tested for feasibility under the path
  condition with z3, the feasible alternative is queued and explored by
  re-execution with a decision prefix (depth-first, deterministic);
* a division forks on "divisor == 0" (Python raises ZeroDivisionError);
* at the end of a path every `check(label, lhs, rhs)` is a validity query
  `path condition => lhs == rhs` in non-linear real arithmetic: `unsat` of
  the negation discharges it for **every real value** of the inputs on that
  path; `sat` gives rational inputs that are replayed with Python floats by
  the same scenario run in concrete mode (with a tolerance, because the
  claim is "up to rounding"); `unknown` is inconclusive.

The verdict of a scenario is CONFIRMED only if the path tree is exhausted
and every obligation of every path is `unsat`.

Not modelled (raises Unsupported -> inconclusive, never success):
int()/round()/math functions of a symbolic value other than the `sint`,
`sfloat` stubs below; symbolic values as indices or lengths.  IEEE rounding
is outside this engine: numbers are reals.
"""
import fractions
import numbers
import time

import z3


class Unsupported(Exception):
    """An operation engine R does not model: the scenario is inconclusive."""


class Inconclusive(Exception):
    """The solver answered unknown on a branch feasibility query."""


_CTX = None  # the context of the path being executed


def ctx():
    return _CTX


def _lift(x):
    """z3 Real term of a Python number / SR, or None."""
    if isinstance(x, SR):
        return x.z
    if isinstance(x, bool):
        return z3.RealVal(int(x))
    if isinstance(x, int):
        return z3.RealVal(x)
    if isinstance(x, float):
        if x != x or x in (float("inf"), float("-inf")):
            raise Unsupported("non-finite float")
        f = fractions.Fraction(x)
        return z3.RealVal(f.numerator) / z3.RealVal(f.denominator) if f.denominator != 1 \
            else z3.RealVal(f.numerator)
    if isinstance(x, fractions.Fraction):
        return z3.RealVal(x.numerator) / z3.RealVal(x.denominator)
    return None


class SB(object):
    """Symbolic boolean; asking for its truth value forks the path."""
    __slots__ = ("z",)

    def __init__(self, z):
        self.z = z

    def __bool__(self):
        return _CTX.branch(self.z)

    def __repr__(self):
        return "SB(%s)" % (self.z,)


class SR(numbers.Number):
    """Symbolic real number."""
    __slots__ = ("z",)

    def __init__(self, z):
        self.z = z

    # -- arithmetic ----------------------------------------------------
    def _bin(self, other, op, swap=False):
        o = _lift(other)
        if o is None:
            return NotImplemented
        a, b = (o, self.z) if swap else (self.z, o)
        return SR(z3.simplify(op(a, b)))

    def __add__(self, o):
        return self._bin(o, lambda a, b: a + b)

    def __radd__(self, o):
        return self._bin(o, lambda a, b: a + b, True)

    def __sub__(self, o):
        return self._bin(o, lambda a, b: a - b)

    def __rsub__(self, o):
        return self._bin(o, lambda a, b: a - b, True)

    def __mul__(self, o):
        return self._bin(o, lambda a, b: a * b)

    def __rmul__(self, o):
        return self._bin(o, lambda a, b: a * b, True)

    def _div(self, num, den):
        if _CTX.branch(den == 0):
            raise ZeroDivisionError("division by zero")
        return SR(z3.simplify(num / den))

    def __truediv__(self, o):
        d = _lift(o)
        if d is None:
            return NotImplemented
        return self._div(self.z, d)

    def __rtruediv__(self, o):
        n = _lift(o)
        if n is None:
            return NotImplemented
        return self._div(n, self.z)

    def __pow__(self, o):
        if isinstance(o, int) and not isinstance(o, bool) and 0 <= o <= 6:
            r = z3.RealVal(1)
            for _ in range(o):
                r = r * self.z
            return SR(z3.simplify(r))
        raise Unsupported("power %r" % (o,))

    def __neg__(self):
        return SR(z3.simplify(-self.z))

    def __pos__(self):
        return self

    def __abs__(self):
        return SR(z3.simplify(z3.If(self.z >= 0, self.z, -self.z)))

    # -- comparisons -----------------------------------------------------
    def _cmp(self, other, op):
        o = _lift(other)
        if o is None:
            return NotImplemented
        return SB(z3.simplify(op(self.z, o)))

    def __lt__(self, o):
        return self._cmp(o, lambda a, b: a < b)

    def __le__(self, o):
        return self._cmp(o, lambda a, b: a <= b)

    def __gt__(self, o):
        return self._cmp(o, lambda a, b: a > b)

    def __ge__(self, o):
        return self._cmp(o, lambda a, b: a >= b)

    def __eq__(self, o):
        if o is self:
            return True
        r = self._cmp(o, lambda a, b: a == b)
        return False if r is NotImplemented else r

    def __ne__(self, o):
        if o is self:
            return False
        r = self._cmp(o, lambda a, b: a != b)
        return True if r is NotImplemented else r

    __hash__ = object.__hash__

    def __bool__(self):
        return _CTX.branch(self.z != 0)

    # -- things that are not modelled ------------------------------------
    def __float__(self):
        raise Unsupported("float() of a symbolic real outside the sfloat stub")

    def __int__(self):
        raise Unsupported("int() of a symbolic real outside the sint stub")

    def __index__(self):
        raise Unsupported("symbolic real used as an index")

    def __round__(self, n=None):
        raise Unsupported("round() of a symbolic real")

    def __floordiv__(self, o):
        raise Unsupported("floor division of a symbolic real")

    __rfloordiv__ = __mod__ = __rmod__ = __floordiv__

    # -- housekeeping ------------------------------------------------------
    def __copy__(self):
        return self

    def __deepcopy__(self, memo):
        return self

    def __repr__(self):
        return "SR(%s)" % (self.z,)

    def __format__(self, spec):
        return repr(self)


class _FloatMeta(type):
    def __instancecheck__(cls, obj):
        return isinstance(obj, float)


class _IntMeta(type):
    def __instancecheck__(cls, obj):
        return isinstance(obj, int)


class sfloat(float, metaclass=_FloatMeta):
    """Stand-in for the builtin float inside lena modules: the identity on
    symbolic reals (a real *is* its own float in this engine) and on
    integers (as exact rationals: `count / float(count - 1)` must be the real
    number 4/3, not the double nearest to it - rounding is outside engine R).
    isinstance(x, float) keeps its meaning."""

    def __new__(cls, x=0.0):
        if isinstance(x, (SR, fractions.Fraction)):
            return x
        if isinstance(x, int) and not isinstance(x, bool):
            return fractions.Fraction(x)
        return float(x)


class sint(int, metaclass=_IntMeta):
    """Stand-in for the builtin int: truncation toward zero."""

    def __new__(cls, x=0):
        if isinstance(x, SR):
            # trunc as an uninterpreted function constrained by what every
            # truncation satisfies (it lies between 0 and x): a sound
            # over-approximation that keeps the queries in pure real
            # arithmetic (ToInt mixes integers into non-linear reals: 60 s
            # instead of 1 s).  A spurious counterexample cannot become an
            # alarm (concrete replay).
            t = _TRUNC(x.z)
            _CTX.solver.add(z3.And(z3.Implies(x.z >= 0, z3.And(0 <= t, t <= x.z)),
                                   z3.Implies(x.z <= 0, z3.And(x.z <= t, t <= 0))))
            return SR(t)
        return int(x)


_TRUNC = z3.Function("trunc", z3.RealSort(), z3.RealSort())


class stubs(object):
    """While a *symbolic* path runs, the names float / int seen from the given
    lena modules are sfloat / sint.  A concrete replay runs the unmodified
    code with the builtins."""

    def __init__(self, *mods):
        self.mods = mods
        self.active = False

    def __enter__(self):
        self.active = _CTX is not None and _CTX.mode == "sym"
        if self.active:
            for m in self.mods:
                setattr(m, "float", sfloat)
                setattr(m, "int", sint)
        return self

    def __exit__(self, *exc):
        if self.active:
            for m in self.mods:
                for nm in ("float", "int"):
                    if nm in vars(m):
                        delattr(m, nm)
        return False


def _val(m, v):
    r = m.eval(v, model_completion=True)
    if z3.is_rational_value(r):
        return fractions.Fraction(r.numerator_as_long(), r.denominator_as_long())
    if z3.is_algebraic_value(r):
        a = r.approx(30)
        return fractions.Fraction(a.numerator_as_long(), a.denominator_as_long())
    raise Unsupported("model value %r" % (r,))


class Context(object):
    """One symbolic path (mode 'sym') or one concrete run (mode 'concrete')."""

    def __init__(self, prefix=(), assignment=None, solver_timeout_ms=20000, stats=None):
        self.mode = "concrete" if assignment is not None else "sym"
        self.assignment = assignment
        self.prefix = list(prefix)
        self.dec = []
        self.forced = []
        self.pending = []
        self.vars = []            # (name, z3 const) in creation order
        self.obligations = []     # dicts
        self.failed = []          # concrete mode: labels that failed
        self.stats = stats if stats is not None else {}
        if self.mode == "sym":
            self.solver = z3.Solver()
            self.solver.set("timeout", int(solver_timeout_ms))
        self.timeout_ms = int(solver_timeout_ms)

    # -- inputs ----------------------------------------------------------
    def fresh(self, name):
        if self.mode == "concrete":
            v = self.assignment[name]
            if isinstance(v, str):
                v = fractions.Fraction(v)
            if isinstance(v, fractions.Fraction):
                v = int(v) if v.denominator == 1 else float(v)
            return v
        c = z3.Real(name)
        self.vars.append((name, c))
        return SR(c)

    def assume(self, cond):
        """Restrict the inputs (a precondition / bound)."""
        if self.mode == "concrete":
            if not cond:
                raise AssertionError("concrete replay outside the precondition")
            return
        if isinstance(cond, SB):
            self.solver.add(cond.z)
        elif not cond:
            raise AssertionError("assume(False)")

    # -- solver ------------------------------------------------------------
    def _sat(self, *extra):
        t = time.perf_counter()
        self.solver.push()
        try:
            for e in extra:
                self.solver.add(e)
            r = str(self.solver.check())
            m = self.solver.model() if r == "sat" else None
            if r == "unknown":
                # second opinion: the dedicated non-linear real procedure
                s2 = z3.Tactic("qfnra-nlsat").solver()
                s2.set("timeout", self.timeout_ms * 3)
                for a in self.solver.assertions():
                    s2.add(a)
                try:
                    r = str(s2.check())
                    m = s2.model() if r == "sat" else None
                except z3.Z3Exception:
                    r, m = "unknown", None
                self.stats["nlsat_retries"] = self.stats.get("nlsat_retries", 0) + 1
        finally:
            self.solver.pop()
            self.stats["solver_checks"] = self.stats.get("solver_checks", 0) + 1
            self.stats["solver_time_s"] = self.stats.get("solver_time_s", 0.0) + \
                time.perf_counter() - t
        return r, m

    def branch(self, e):
        if isinstance(e, bool):
            return e
        e = z3.simplify(e)
        if z3.is_true(e):
            return True
        if z3.is_false(e):
            return False
        i = len(self.dec)
        if i < len(self.prefix):
            d = self.prefix[i]
        else:
            rt, _ = self._sat(e)
            rf, _ = self._sat(z3.Not(e))
            if "unknown" in (rt, rf):
                raise Inconclusive("branch feasibility unknown: %s" % (e,))
            if rt == "sat" and rf == "sat":
                d = True
                self.pending.append(self.dec + [False])
            elif rt == "sat":
                d = True
            elif rf == "sat":
                d = False
            else:
                raise Inconclusive("path condition became unsatisfiable")
        self.dec.append(d)
        self.solver.add(e if d else z3.Not(e))
        self.stats["decisions"] = self.stats.get("decisions", 0) + 1
        return d

    # -- obligations ---------------------------------------------------------
    def check(self, label, lhs, rhs=None):
        """Obligation lhs == rhs (or, with one argument, that a condition
        holds).  Symbolic mode: validity under the path condition.  Concrete
        mode: closeness within 1e-9 relative."""
        if self.mode == "concrete":
            if rhs is None:
                good = True if lhs else False
            else:
                good = _close(lhs, rhs)
            if not good:
                self.failed.append(label)
            return good
        if rhs is None:
            if isinstance(lhs, SB):
                goal, nice = lhs.z, None
            else:
                goal, nice = z3.BoolVal(True if lhs else False), None
        else:
            a, b = _lift(lhs), _lift(rhs)
            if a is None or b is None:
                goal, nice = z3.BoolVal(True if lhs == rhs else False), None
            else:
                goal = a == b
                d = a - b
                ab = z3.If(d >= 0, d, -d)
                bb = z3.If(b >= 0, b, -b)
                nice = ab * 8 >= 1 + bb
        goal = z3.simplify(goal)
        ob = {"label": label, "path": list(self.dec)}
        if z3.is_true(goal):
            ob["result"] = "unsat"
            ob["trivial"] = True
            self.obligations.append(ob)
            return True
        model = None
        res = None
        if nice is not None:
            box = [z3.And(c >= -64, c <= 64) for _, c in self.vars]
            r, m = self._sat(z3.Not(goal), nice, *box)
            if r == "sat":
                res, model = "sat", m
        if res is None:
            res, model = self._sat(z3.Not(goal))
        ob["result"] = res
        if res == "sat":
            ob["model"] = {n: str(_val(model, c)) for n, c in self.vars}
        self.obligations.append(ob)
        return res == "unsat"


def _close(a, b):
    try:
        d = a - b
    except TypeError:
        return a == b
    lim = 1e-9 * (1.0 + abs(b))
    return True if -lim <= d <= lim else False


def explore(scenario, args=(), budget_s=60.0, solver_timeout_ms=20000, max_paths=100000):
    """Run scenario(ctx, *args) over every feasible path.

    Returns dict(status, paths, decisions, solver_checks, solver_time_s,
    obligations, discharged, counterexamples [{label, model, path}],
    inconclusive [{reason}])."""
    global _CTX
    t0 = time.time()
    stats = {}
    work = [[]]
    paths = 0
    obligations = discharged = 0
    cex, inconc = [], []
    exhausted = True
    while work:
        if time.time() - t0 > budget_s or paths >= max_paths:
            exhausted = False
            inconc.append({"reason": "budget exhausted with %d prefixes pending" % len(work)})
            break
        prefix = work.pop()
        c = Context(prefix=prefix, solver_timeout_ms=solver_timeout_ms, stats=stats)
        _CTX = c
        try:
            scenario(c, *args)
        except Unsupported as e:
            inconc.append({"reason": "unsupported: %s" % e, "path": list(c.dec)})
        except Inconclusive as e:
            inconc.append({"reason": str(e), "path": list(c.dec)})
        finally:
            _CTX = None
        paths += 1
        work.extend(c.pending)
        for ob in c.obligations:
            obligations += 1
            if ob["result"] == "unsat":
                discharged += 1
            elif ob["result"] == "sat":
                cex.append(ob)
            else:
                inconc.append({"reason": "solver %s on %s" % (ob["result"], ob["label"]),
                               "path": ob["path"]})
    if cex:
        status = "REFUTED"
    elif inconc or not exhausted:
        status = "UNKNOWN"
    else:
        status = "CONFIRMED"
    return dict(status=status, paths=paths, decisions=stats.get("decisions", 0),
                solver_checks=stats.get("solver_checks", 0),
                solver_time_s=round(stats.get("solver_time_s", 0.0), 3),
                obligations=obligations, discharged=discharged,
                counterexamples=cex, inconclusive=inconc)


def run_concrete(scenario, assignment, args=()):
    """The same scenario with Python numbers; returns the failed labels."""
    global _CTX
    c = Context(assignment=assignment)
    _CTX = c
    try:
        scenario(c, *args)
    finally:
        _CTX = None
    return c.failed


def _tuplify(a):
    if isinstance(a, list):
        return tuple(_tuplify(x) for x in a)
    return a


def replay(scenarios, name, args_json, assignment_json):
    """Concrete replay of a model: True iff every obligation holds."""
    import json
    args = _tuplify(json.loads(args_json))
    failed = run_concrete(scenarios[name], json.loads(assignment_json), args)
    return not failed


def run_cases(modname, scenarios, name, cases, budget, solver_timeout_ms=20000):
    """Explore every case (a tuple of concrete scenario arguments) within
    the budget; returns a worker-result dict (see verif.custom_worker)."""
    import json
    t0 = time.time()
    out = dict(paths=0, confirmed_paths=0, decisions=0, solver_checks=0, solver_time_s=0.0,
               messages=[], queries=[])
    status = "CONFIRMED"
    obligations = discharged = 0
    for args in cases:
        left = budget - (time.time() - t0)
        if left <= 1:
            status = "UNKNOWN" if status == "CONFIRMED" else status
            out["queries"].append(dict(case=list(args), status="not started (budget)"))
            continue
        r = explore(scenarios[name], args, budget_s=left, solver_timeout_ms=solver_timeout_ms)
        out["paths"] += r["paths"]
        out["decisions"] += r["decisions"]
        out["solver_checks"] += r["solver_checks"]
        out["solver_time_s"] = round(out["solver_time_s"] + r["solver_time_s"], 3)
        obligations += r["obligations"]
        discharged += r["discharged"]
        if r["status"] == "CONFIRMED":
            out["confirmed_paths"] += r["paths"]
        if r["status"] != "CONFIRMED" or len(out["queries"]) < 6:
            out["queries"].append(dict(case=list(args), status=r["status"], paths=r["paths"],
                                       obligations=r["obligations"], discharged=r["discharged"],
                                       inconclusive=r["inconclusive"][:3]))
        if r["status"] == "REFUTED":
            status = "REFUTED"
            for ob in r["counterexamples"][:3]:
                call = "replay_real(%r, %r, %r)" % (name, json.dumps(list(args)),
                                                    json.dumps(ob["model"]))
                out["messages"].append(dict(state="POST_FAIL", module=modname, call=call,
                                            message="obligation %r fails on path %r for %s" % (
                                                ob["label"], ob["path"], ob["model"])))
        elif r["status"] == "UNKNOWN" and status == "CONFIRMED":
            status = "UNKNOWN"
    out["status"] = status
    out["detail"] = ("engine R: %d cases, %d paths, %d obligations, %d discharged (validity in "
                     "non-linear real arithmetic)" % (len(cases), out["paths"], obligations, discharged))
    return out
