"""Solver-based checking of ynikitenko/lena: driver, engines and stubs."""
