"""Markdown table of the seeded changes of one round (DESIGN.md 6.6).

usage: python3 -m verif.seedtable r2|r3
Reads /verif/seeded/<property>-<round>-<n>/meta.json: the first recorded
check run is the verdict of the checks as they stood before the round was
looked at, the last one the verdict of the current checks.
"""
import glob
import json
import os
import re
import sys

ROOT = os.path.dirname(os.path.dirname(os.path.abspath(__file__)))


def verdict(run):
    q = run.get("quick") or run.get("thorough") or {}
    if q.get("caught"):
        conds = sorted(set(re.findall(r"condition=(\w+)", " ".join(q.get("lines", [])))))
        return "caught", ", ".join(conds)
    if q.get("exit") == 2:
        return "harness error", ""
    return "missed", ""


def short(text):
    text = " ".join(text.split())
    text = re.sub(r"^(Change(d)?( \d)?:?|Changed:?)\s*", "", text)
    m = re.search(r"(Why it breaks|Why|Break)", text)
    if m and m.start() > 40:
        text = text[:m.start()]
    text = text.strip().rstrip(".")
    if len(text) > 230:
        text = text[:227].rsplit(" ", 1)[0] + " ..."
    return text.replace("|", "\\|")


def main(tag):
    print("| seeded change | what was changed | first run | now | caught by |")
    print("|---|---|---|---|---|")
    n = first = now = 0
    for d in sorted(glob.glob(os.path.join(ROOT, "seeded", "*-%s-*" % tag))):
        m = json.load(open(os.path.join(d, "meta.json")))
        runs = [r for r in (m.get("earlier_check_runs") or []) if r] + [m["check_runs"]]
        v0, _ = verdict(runs[0])
        v1, conds = verdict(runs[-1])
        n += 1
        first += v0 == "caught"
        now += v1 == "caught"
        print("| %s | %s | %s | %s | %s |" % (os.path.basename(d), short(m.get("breaks", "")), v0, v1, conds))
    print()
    print("%d changes; caught at first run: %d; caught now: %d" % (n, first, now))


if __name__ == "__main__":
    main(sys.argv[1] if len(sys.argv) > 1 else "r2")
