"""C09 - accumulators yield the documented aggregate; reset() equals a fresh
element."""
import copy
from decimal import Decimal, Inexact
from fractions import Fraction
from typing import List

import lena.core
import lena.flow
import lena.math
from lena.flow import Count, StoreFilled, GroupBy
from lena.math import Sum, DSum, Mean, VarianceMeanCount, Vectorize
from lena.structures import Histogram, histogram

from verif import h
from harness.c06_histogram import cut

PROPERTY = "C09"
B = h.bounds(
    quick=dict(HIST=3, VN=3, DN=2),
    thorough=dict(HIST=5, VN=4, DN=3),
)
KINDS = ["Count", "Sum", "Mean", "Vectorize(Sum, dim=2)", "StoreFilled", "GroupBy('a')", "Histogram([0,1,2])",
         "Histogram([0,1,2], bins=[0,0])", "Vectorize([Sum, StoreFilled(one by one)]) - results of different lengths",
         "Histogram([[0,1,2],[0,1]], bins=[[0],[0]]) - two-dimensional, explicit nested bins"]
BOUNDS = dict(vars(B), kinds=KINDS, meaning="histories of <= HIST operations over {fill, compute, "
              "reset} with symbolic integer data and a context chosen per value from {none, {a:1}, "
              "{a:2,b:{c:3}}}; VarianceMeanCount on <= VN values from -2..2; DSum on <= DN values from "
              "a table of mixed-magnitude doubles and, separately, for every required precision "
              "28..40 through a contract stub of decimal.Context.add; engine R: Sum, Mean, "
              "VarianceMeanCount (corrected and not), Vectorize(Sum), Vectorize(VarianceMeanCount) "
              "on symbolic REAL data, every history over {fill, compute, reset} of <= 4 (thorough 6) "
              "operations containing a compute")
FUNCTIONS = ["lena.flow.elements.Count.fill/compute/reset", "lena.math.elements.Sum", "DSum", "Mean",
             "VarianceMeanCount", "Vectorize", "lena.flow.elements.StoreFilled",
             "lena.flow.group_by.GroupBy.fill/compute/reset", "lena.structures.histogram.Histogram"]
STUBS = ["Histogram: get_bin_on_value_1d cut to the linear scan (C06 layer K)",
         "DSum precision loop: decimal.Context replaced by a contract stub (exact iff prec >= need)"]
ASSUMPTIONS = ["Decimal(float) and decimal addition are exact as documented (C boundary)",
               "Sum is 'Python's sum': integers here; float rounding is Python's by definition"]
OUTSIDE = ["arbitrary doubles for DSum/Sum", "elements constructed with non-default initial totals",
           "Graph element (deprecated)"]

CTXS = [None, {"a": 1}, {"a": 2, "b": {"c": 3}}]


def val(x, c):
    ctx = h.choose(CTXS, c)
    if ctx is None:
        return x
    return (x, copy.deepcopy(ctx))


def make(kind):
    if kind == 0:
        return Count()
    if kind == 1:
        return Sum()
    if kind == 2:
        return Mean()
    if kind == 3:
        return Vectorize(Sum(), dim=2)
    if kind == 4:
        return StoreFilled()
    if kind == 5:
        return GroupBy("a")
    if kind == 7:
        return Histogram([0, 1, 2], bins=[0, 0])
    if kind == 8:
        return Vectorize([Sum(), StoreFilled(yield_as_a_group=False)])
    if kind == 9:
        return Histogram([[0, 1, 2], [0, 1]], bins=[[0], [0]])
    return Histogram([0, 1, 2])


def mkdata(kind, x):
    if kind == 9:
        return (x, 0)
    return (x, x + 1) if kind in (3, 8) else x


def with_ctx(data, ctx):
    return (data, ctx) if ctx else data


def expected(kind, filled):
    """Documented aggregate for the values filled since the last reset.
    filled: list of (x, ctx code)."""
    last = copy.deepcopy(CTXS[filled[-1][1]]) if filled and CTXS[filled[-1][1]] else {}
    n = len(filled)
    if kind == 0:
        c = dict(last)
        c["count"] = n
        return ("ok", [(n, c)])
    if kind == 1:
        tot = 0
        for x, _ in filled:
            tot += x
        return ("ok", [with_ctx(tot, last)])
    if kind == 2:
        if n == 0:
            return ("raises", "LenaZeroDivisionError")
        tot = 0
        for x, _ in filled:
            tot += x
        return ("ok", [with_ctx(float(tot) / float(n), last)])
    if kind == 3:
        t0 = t1 = 0
        for x, _ in filled:
            t0 += x
            t1 += x + 1
        return ("ok", [with_ctx((t0, t1), last)])
    if kind == 4:
        return ("ok", [[val(mkdata(kind, x), c) for x, c in filled]])
    if kind == 5:
        groups = []
        keys = []
        for x, c in filled:
            ctx = CTXS[c]
            key = ctx["a"] if ctx else None
            if key in keys:
                groups[keys.index(key)].append(val(x, c))
            else:
                keys.append(key)
                groups.append([val(x, c)])
        return ("ok", _sorted_groups(groups))
    if kind == 8:
        # component-wise: the longest output, shorter ones padded with None
        tot = 0
        for x, _ in filled:
            tot += x
        rows = [(tot, filled[0][0] + 1)] if filled else [(tot, None)]
        for x, _ in filled[1:]:
            rows.append((None, x + 1))
        return ("ok", [with_ctx(r, last) for r in rows])
    bins = [0, 0]
    oor = 0
    for x, _ in filled:
        if 0 <= x and x < 1:
            bins[0] += 1
        elif 1 <= x and x < 2:
            bins[1] += 1
        else:
            oor += 1
    if kind == 9:
        bins = [[bins[0]], [bins[1]]]
    return ("ok", [("hist", bins, oor, last)])


def observe(kind, el):
    try:
        res = list(el.compute())
    except lena.core.LenaZeroDivisionError:
        return ("raises", "LenaZeroDivisionError")
    if kind in (6, 7, 9):
        out = []
        for r in res:
            hist, ctx = r
            bins = [list(b) for b in hist.bins] if kind == 9 else list(hist.bins)
            out.append(("hist", bins, hist.n_out_of_range, ctx))
        return ("ok", out)
    if kind == 5:
        # the order of the groups is not documented (dictionary order)
        return ("ok", _sorted_groups(res))
    return ("ok", res)


def _gkey(group):
    v = group[0]
    if isinstance(v, tuple) and len(v) == 2 and isinstance(v[1], dict):
        return v[1].get("a", 0)
    return 0


def _sorted_groups(groups):
    return sorted(groups, key=_gkey)


def _first(ops, cs):
    """Shard code of the first operation: fill with context kind 0 / 1 / 2,
    compute, reset (0..4)."""
    if ops[0] <= 0:
        return 0 if cs[0] <= 0 else (1 if cs[0] == 1 else 2)
    return 3 if ops[0] == 1 else 4


def check_history(kind: int, ops: List[int], xs: List[int], cs: List[int]) -> bool:
    """
    pre: 0 <= kind <= 9
    pre: 1 <= len(ops) <= B.HIST
    pre: len(xs) == len(ops) and len(cs) == len(ops)
    pre: h.in_shard(kind + 10 * (len(ops) % 2) + 20 * _first(ops, cs))
    post: _
    """
    kind = h.concrete(kind, 0, 9)
    el = make(kind)
    filled = []
    with cut():
        for i in range(len(ops)):
            op = 0 if ops[i] <= 0 else (1 if ops[i] == 1 else 2)
            if op == 0:
                c = 0 if cs[i] <= 0 else (1 if cs[i] == 1 else 2)
                x = xs[i]
                if kind == 5:
                    # GroupBy groups by context only: data from {0, 1}
                    x = 1 if x > 0 else 0
                if kind == 2:
                    # Mean divides: symbolic int -> float quotients leave the
                    # solver without an answer (214 paths in 900 s); data from
                    # {-1, 0, 1} here, every real number in real_history
                    x = -1 if x < 0 else (1 if x > 0 else 0)
                el.fill(val(mkdata(kind, x), c))
                filled.append((x, c))
            elif op == 1:
                if observe(kind, el) != expected(kind, filled):
                    return h.ok(False)
            else:
                el.reset()
                filled = []
        # at the end: the history element and a fresh one that saw only the
        # suffix after the last reset are observationally equal
        fresh = make(kind)
        for x, c in filled:
            fresh.fill(val(mkdata(kind, x), c))
        a, b = observe(kind, el), observe(kind, fresh)
        if a != b or a != expected(kind, filled):
            return h.ok(False)
        # and stay so after one more fill
        el.fill(val(mkdata(kind, 1), 1))
        fresh.fill(val(mkdata(kind, 1), 1))
        return h.ok(observe(kind, el) == observe(kind, fresh))


VALS = [-2, -1, 0, 1, 2]


def check_variance(n: int, i0: int, i1: int, i2: int, i3: int, corrected: bool,
                   reset_at: int) -> bool:
    """
    pre: 0 <= n <= B.VN
    pre: 0 <= i0 <= 4 and 0 <= i1 <= 4 and 0 <= i2 <= 4 and 0 <= i3 <= 4
    pre: -1 <= reset_at <= n
    pre: h.in_shard(i0)
    post: _
    """
    n = h.concrete(n, 0, B.VN)
    xs = [h.choose(VALS, i) for i in [i0, i1, i2, i3][:n]]
    corr = True if corrected else False
    el = VarianceMeanCount(corrected=corr)
    since = []
    for i, x in enumerate(xs):
        if i == reset_at:
            el.reset()
            since = []
        el.fill((x, {"a": i}))
        since.append(x)
    m = len(since)
    try:
        res = list(el.compute())
    except lena.core.LenaZeroDivisionError:
        return h.ok(m == 0 or (corr and m == 1))
    if m == 0 or (corr and m == 1):
        return h.ok(False)
    if len(res) != 1:
        return h.ok(False)
    r, ctx = res[0]
    mean = sum(since) / float(m)
    var = sum([(x - mean) ** 2 for x in since]) / float(m - 1 if corr else m)
    return h.ok(abs(r.variance - var) < 1e-9 and abs(r.mean - mean) < 1e-9 and r.count == m
                and ctx == {"a": len(xs) - 1})


DVALS = [1e16, 1.0, -1e16, 0.1, 1e-16, 3.0, -0.1]


def check_dsum_table(n: int, i0: int, i1: int, i2: int, i3: int, reset_at: int) -> bool:
    """
    pre: 0 <= n <= B.DN
    pre: 0 <= i0 <= 6 and 0 <= i1 <= 6 and 0 <= i2 <= 6 and 0 <= i3 <= 6
    pre: -1 <= reset_at <= n
    pre: h.in_shard(i0)
    post: _
    """
    n = h.concrete(n, 0, B.DN)
    xs = [h.choose(DVALS, i) for i in [i0, i1, i2, i3][:n]]
    el = DSum()
    since = []
    for i, x in enumerate(xs):
        if i == reset_at:
            el.reset()
            since = []
        el.fill(x)
        since.append(x)
    res = list(el.compute())
    exact = sum([Fraction(x) for x in since], Fraction(0))
    return h.ok(len(res) == 1 and Fraction(res[0]) == exact)


class _StubCtx(object):
    """decimal.Context contract: add() is exact iff prec >= need."""

    def __init__(self, need):
        self.prec = 28
        self.need = need
        self.calls = 0

    def add(self, a, b):
        self.calls += 1
        if self.calls > 40:
            raise RuntimeError("precision loop does not terminate")
        if self.prec >= self.need:
            return ("sum", a, b)
        raise Inexact()


def check_dsum_precision(need: int) -> bool:
    """
    pre: 20 <= need <= 40
    post: _
    """
    el = DSum()
    stub = _StubCtx(need)
    el._dcontext = stub
    el.fill(1.5)
    total = el._total
    return h.ok(isinstance(total, tuple) and total[0] == "sum" and total[2] == Decimal(1.5)
                and stub.prec == max(28, need))


# ---------------------------------------------------------------- engine R
# Sum / Mean / VarianceMeanCount / Vectorize over symbolic reals, every
# history over {fill, compute, reset} up to RHIST operations (harness/c09_real.py)

def real_history(budget):
    from harness import c09_real as cr
    hs = cr.histories(6 if h.TIER == "thorough" else 4)
    cases = [(k, ops, wc) for k in cr.KINDS for wc in (False, True) for ops in hs]
    mine = [c for i, c in enumerate(cases) if i % h.SHARD_N == h.SHARD_I]
    return cr.run_cases("history", mine, budget)


CONDITIONS = [
    dict(fn="real_history", custom=True, shards=(2, 8), budget=(60, 900)),
    dict(fn="check_history", shards=(100, 100), budget=(200, 1200),
         smoke=["check_history(0, [0, 0, 1, 2], [5, 6, 0, 0], [1, 2, 0, 0])",
                "check_history(2, [0, 1, 2, 1], [5, 6, 0, 0], [1, 2, 0, 0])",
                "check_history(5, [0, 0, 0, 1], [5, 6, 7, 0], [1, 2, 1, 0])",
                "check_history(3, [0, 1], [5, 6], [0, 0])", "check_history(4, [0, 2, 0], [5, 6, 1], [0, 0, 1])",
                "check_history(6, [0, 0, 1], [0, 5, 0], [0, 1, 0])", "check_history(7, [2, 0, 2], [0, 0, 0], [0, 1, 0])",
                "check_history(8, [0, 0, 1], [4, 5, 0], [0, 1, 0])", "check_history(8, [1], [0], [0])",
                "check_history(9, [2, 0, 2], [0, 0, 0], [0, 1, 0])", "check_history(9, [0, 0, 1], [1, 5, 0], [0, 1, 0])"]),
    dict(fn="check_variance", shards=(5, 5), budget=(80, 900),
         smoke=["check_variance(3, 0, 2, 4, 0, True, -1)", "check_variance(1, 0, 2, 4, 0, True, -1)",
                "check_variance(3, 0, 2, 4, 0, False, 1)"]),
    dict(fn="check_dsum_table", shards=(7, 7), budget=(80, 900),
         smoke=["check_dsum_table(2, 0, 1, 2, 0, -1)", "check_dsum_table(2, 3, 3, 3, 0, 1)"]),
    dict(fn="check_dsum_precision", budget=(60, 200), smoke=["check_dsum_precision(33)"]),
]
