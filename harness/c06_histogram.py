"""C06 - histogram fill puts every value into exactly the right cell and
conserves weight.  Layer K (engine K + FP lemmas) decides get_bin_on_value_1d;
layer CH (CrossHair) decides get_bin_on_value / histogram.fill / Histogram with
get_bin_on_value_1d cut to the linear-scan reference that layer K proves it
equal to."""
import copy
import doctest
import os
from fractions import Fraction
from typing import List

import lena.core
import lena.structures
import lena.structures.hist_functions as hf
from lena.structures import histogram, Histogram

from verif import h

PROPERTY = "C06"
ENGINE = ("engine K (verif/kernel.py: AST -> SMT, merged guarded execution, z3) for "
          "get_bin_on_value_1d + z3 floating-point lemmas; CrossHair for the fill layer")
SRC = os.path.join(os.environ.get("VERIF_REPO", "/repo"), "lena", "structures",
                   "hist_functions.py")
B = h.bounds(
    quick=dict(NMAX=8, KMAX=11, L1B_BITS=16, EDGES=3, FILLS=2, DIMS=2),
    thorough=dict(NMAX=12, KMAX=11, L1B_BITS=32, EDGES=4, FILLS=3, DIMS=3),
)
BOUNDS = dict(vars(B), meaning="K: every edge array of length 2..NMAX over the reals (strictly "
              "increasing) and every real value; loop unrolled N times with unwinding assertion; "
              "FP lemmas at binary64 except L1b at L1B_BITS. CH: <= DIMS dimensions, <= EDGES "
              "edges per axis (symbolic integer origin and widths), <= FILLS fills of symbolic "
              "integer coordinates and weights")
FUNCTIONS = ["lena.structures.hist_functions.get_bin_on_value_1d (engine K, from the AST)",
             "hist_functions.get_bin_on_value", "hist_functions.check_edges_increasing",
             "hist_functions.init_bins", "lena.structures.histogram.histogram.__init__/fill",
             "Histogram.__init__/fill/compute"]
STUBS = ["CH layer: hist_functions.get_bin_on_value_1d replaced by the linear-scan reference "
         "(the equivalence is the obligation discharged by engine K)"]
ASSUMPTIONS = [
    "edges and values are finite; ordering of finite floats/ints is the ordering of the reals",
    "K exact mode: the guess int(A*(float(P)/Q)) is the truncation of the exact real quotient",
    "fp_witness: z3 (floating-point theory) produces doubles reaching the rounding corner of the search, and exact edges with their two floating-point neighbours; they are run through the real function (a solver-generated differential test of what only rounding reaches)",
    "K robust mode: the guess is ANY integer in [0, ind_max-ind_min]; that the float computation "
    "lands there is the chain L1a, L1b, L2, L3 (IEEE-754 round-to-nearest, no overflow in V-A, B-A, "
    "ints with |x| <= 2**53)",
    "L1b (monotone rounding of subtraction) is discharged at binary16 (quick) / binary32 "
    "(thorough) and ASSUMED at binary64, where it does not bit-blast within reach",
]
OUTSIDE = ["NaN coordinates", "overflowing magnitudes", "float weights", "edges given as "
           "non-list iterables", "more than NMAX edges per axis (K) / EDGES (CH)"]


# ----------------------------------------------------------------- layer K

def ref_index(val, arr):
    return sum(1 for a in arr if a <= val) - 1


def replay_bin(val, arr):
    """Real get_bin_on_value_1d on exact rationals == reference?"""
    v = Fraction(val)
    a = [Fraction(x) for x in arr]
    return hf.get_bin_on_value_1d(v, a) == ref_index(v, a)


def replay_bin_float(val, arr):
    return hf.get_bin_on_value_1d(float(Fraction(val)), [float(Fraction(x)) for x in arr]) \
        == ref_index(float(Fraction(val)), [float(Fraction(x)) for x in arr])


def replay_float(val_hex, arr_hex):
    """Real get_bin_on_value_1d on doubles (given as float.hex strings) == reference?"""
    v = float.fromhex(val_hex)
    a = [float.fromhex(x) for x in arr_hex]
    return hf.get_bin_on_value_1d(v, a) == ref_index(v, a)


FPW = [(3, 0), (4, 0), (4, 1), (5, 0), (5, 2), (6, 1), (6, 3), (8, 2)]
# (n, edge, side): exact edges and their floating-point neighbours
FPN = [(n, e, sd) for n in (3, 5) for e in range(n) for sd in (-1, 0, 1)]


def fp_witness(budget):
    """Solver-produced doubles that drive the search into its rounding
    corner (guess == ind_max although val < arr[ind_max]), replayed on the
    real function against the reference."""
    from verif import fp_lemmas as fl
    if h.SHARD_I >= len(FPW):
        # one task for all edge/neighbour witnesses (cheap queries)
        qs, bad = [], []
        total = 0.0
        for (n, e, sd) in FPN:
            r, dt, w = fl.neighbour_witness(n, e, sd, min(budget, 20))
            total += dt
            qs.append(dict(query="neighbour n=%d edge=%d side=%+d" % (n, e, sd), result=r, seconds=dt,
                           witness=w))
            if w is not None and not replay_float(w[0].hex(), [x.hex() for x in w[1]]):
                bad.append((w, n, e, sd))
        msgs = [{"state": "POST_FAIL", "call": "replay_float(%r, %r)" % (w[0].hex(), [x.hex() for x in w[1]]),
                 "message": "wrong bin for the neighbour (%+d) of edge %d, n=%d" % (sd, e, n)}
                for (w, n, e, sd) in bad]
        found = len([q for q in qs if q["result"] == "sat"])
        status = "REFUTED" if bad else ("CONFIRMED" if found == len(FPN) else "UNKNOWN")
        return dict(status=status, paths=len(FPN), confirmed_paths=found - len(bad), decisions=len(FPN),
                    solver_checks=len(FPN), solver_time_s=round(total, 2), messages=msgs, queries=qs[:6],
                    detail="%d edge/neighbour witnesses, %d disagree with the reference" % (found, len(bad)))
    n, cell = FPW[h.SHARD_I]
    r, dt, w = fl.rounding_witness(n, cell, budget)
    q = [dict(query="rounding corner n=%d cell=%d" % (n, cell), result=r, seconds=dt)]
    if w is None:
        return dict(status="UNKNOWN", paths=1, decisions=1, solver_checks=1, solver_time_s=dt,
                    messages=[], queries=q, detail="no witness (%s)" % r)
    val, arr = w
    call = "replay_float(%r, %r)" % (val.hex(), [x.hex() for x in arr])
    q[0]["witness"] = {"val": val, "arr": arr}
    good = replay_float(val.hex(), [x.hex() for x in arr])
    if good:
        return dict(status="CONFIRMED", paths=1, confirmed_paths=1, decisions=1, solver_checks=1,
                    solver_time_s=dt, messages=[], queries=q,
                    detail="witness found in %.1fs; real function agrees with the reference on it" % dt)
    return dict(status="REFUTED", paths=1, decisions=1, solver_checks=1, solver_time_s=dt, queries=q,
                messages=[{"state": "POST_FAIL", "call": call,
                           "message": "wrong bin on a rounding-corner witness n=%d cell=%d" % (n, cell)}])


def _kernel(mode, budget):
    from verif import kernel_check as kc
    n = 2 + h.SHARD_I
    obs, ex = kc.obligations(SRC, "get_bin_on_value_1d", n, mode, budget)
    status = "CONFIRMED"
    msgs = []
    for o in obs:
        if o["result"] == o.get("expect"):
            continue
        if o["result"] in ("unknown", "unsupported"):
            if status != "REFUTED":
                status = "UNKNOWN"
        elif o.get("expect") == "sat":
            status = "HARNESS_ERROR"      # vacuous encoding
        else:
            status = "REFUTED"
            val, arr = o["model"]
            msgs.append({"state": "POST_FAIL", "call": "replay_bin(%r, %r)" % (val, arr),
                         "message": "%s violated for n=%d (%s mode)" % (o["obligation"], n, mode)})
    nsites = len(ex.t.bounds) + len(ex.t.div_sites) if ex is not None else 0
    return dict(status=status, paths=len(obs), confirmed_paths=sum(
        1 for o in obs if o["result"] == o.get("expect")), decisions=nsites,
        solver_checks=len(obs), solver_time_s=round(sum(o["seconds"] for o in obs), 2),
        messages=msgs, queries=obs,
        detail="n=%d mode=%s guess sites=%d" % (n, mode, len(ex.t.guess_sites) if ex else 0))


def kernel_exact(budget):
    return _kernel("exact", budget)


def kernel_robust(budget):
    return _kernel("robust", budget)


def translator_validation(budget):
    """The repository's own vectors (doctest of the function, tests/) through
    both the real function and the formula."""
    from verif import kernel_check as kc
    vectors = []
    for ex in doctest.DocTestParser().get_examples(hf.get_bin_on_value_1d.__doc__ or ""):
        src = ex.source.strip()
        if src.startswith("arr ="):
            arr = eval(src.split("=", 1)[1])
        elif src.startswith("get_bin_on_value_1d("):
            val = eval(src[len("get_bin_on_value_1d("):].split(",")[0])
            vectors.append((val, list(arr)))
    # vectors of tests/structures/test_hist_functions.py::test_get_bin_on_value_1d
    arr = [0, 1, 4, 5, 7, 10]
    for val in [-1, 0, 0.5, 1, 3.9, 4, 4.5, 6, 7, 9.99, 10, 100]:
        vectors.append((val, arr))
    for val in [0.0, 0.1, 1.5, 2, 2.5, 3]:
        vectors.append((val, [0, 1, 2, 3]))
        vectors.append((val, [0.0, 0.25, 2.0]))
    bad, qs = [], []
    from verif import kernel
    try:
        kernel.translate(SRC, "get_bin_on_value_1d", 3, "exact")
    except kernel.Unsupported as e:
        return dict(status="UNKNOWN", paths=0, messages=[],
                    detail="the current source is outside the translated subset: %s" % e)
    for val, arr in vectors:
        real = hf.get_bin_on_value_1d(val, arr)
        model = kc.evaluate_concrete(SRC, "get_bin_on_value_1d", val, arr)
        qs.append(dict(val=val, arr=arr, real=real, formula=model))
        if model != real:
            bad.append((val, arr, real, model))
    return dict(status="CONFIRMED" if not bad else "HARNESS_ERROR", paths=len(vectors),
                confirmed_paths=len(vectors) - len(bad), decisions=len(vectors),
                solver_checks=len(vectors), messages=[], queries=qs[:6],
                detail="translator disagrees with the real function on %r" % (bad[:3],)
                if bad else "%d vectors agree" % len(vectors))


def _lemma(name, fn, *args):
    r, dt, model = fn(*args)
    status = {"unsat": "CONFIRMED", "sat": "HARNESS_ERROR"}.get(r, "UNKNOWN")
    return dict(status=status, paths=1, confirmed_paths=1 if r == "unsat" else 0, decisions=1,
                solver_checks=1, solver_time_s=dt, messages=[],
                queries=[dict(lemma=name, result=r, seconds=dt, model=model)],
                detail="%s: %s in %.1fs" % (name, r, dt))


def guess_shape_ok():
    """The lemma chain speaks about int(K * (float(V - A) / (B - A))) under A < V < B."""
    import ast
    from verif import kernel
    fn, _ = kernel.load_function(SRC, "get_bin_on_value_1d")
    ex = kernel.Executor(fn, 3, "robust", 3)
    for node in ast.walk(fn):
        if isinstance(node, ast.Call) and isinstance(node.func, ast.Name) and node.func.id == "int":
            m = ex.match_guess(node)
            if m is None:
                continue
            a, p, q = (ast.unparse(x) for x in m)
            return (a == "ind_max - ind_min" and p == "val - arr[ind_min]"
                    and q == "arr[ind_max] - arr[ind_min]"), (a, p, q)
    return False, None


def fp_lemmas(budget):
    from verif import fp_lemmas as fl
    ok, shape = guess_shape_ok()
    if not ok:
        return dict(status="UNKNOWN", paths=0, messages=[],
                    detail="guess expression %r is not int(K*(float(V-A)/(B-A))): the lemma "
                           "chain does not apply" % (shape,))
    which = h.SHARD_I
    if which == 0:
        return _lemma("L1a binary64", fl.l1a, 64, budget)
    if which == 1:
        return _lemma("L2 binary64", fl.l2, 64, budget)
    if which == 2:
        return _lemma("L3 binary64 K<=%d" % B.KMAX, fl.l3, 64, B.KMAX, budget)
    return _lemma("L1b binary%d" % B.L1B_BITS, fl.l1b, B.L1B_BITS, budget)


# ---------------------------------------------------------------- layer CH

def _linear_scan(val, arr):
    n = -1
    for a in arr:
        if a <= val:
            n += 1
    return n


class cut(object):
    def __enter__(self):
        self.old = hf.get_bin_on_value_1d
        hf.get_bin_on_value_1d = _linear_scan

    def __exit__(self, *exc):
        hf.get_bin_on_value_1d = self.old
        return False


def mk_edges(e0, w1, w2, w3, ne):
    return [e0, e0 + w1, e0 + w1 + w2, e0 + w1 + w2 + w3][:ne]


def _flat(bins):
    if isinstance(bins, list):
        out = []
        for b in bins:
            out += _flat(b)
        return out
    return [bins]


def check_fill_1d(e0: int, w1: int, w2: int, w3: int, ne: int,
                  xs: List[int], ws: List[int]) -> bool:
    """
    pre: w1 >= 1 and w2 >= 1 and w3 >= 1
    pre: 2 <= ne <= B.EDGES
    pre: len(xs) <= B.FILLS and len(ws) == len(xs)
    post: _
    """
    edges = mk_edges(e0, w1, w2, w3, ne)
    with cut():
        hist = histogram(list(edges))
        want = [0] * (ne - 1)
        oor = 0
        total = 0
        for x, w in zip(xs, ws):
            before = list(hist.bins)
            hist.fill(x, w)
            total += w
            cell = None
            for i in range(ne - 1):
                if edges[i] <= x and x < edges[i + 1]:
                    cell = i
            if cell is None:
                oor += w
            else:
                want[cell] += w
            if hist.bins != want or hist.n_out_of_range != oor:
                return h.ok(False)
            if hf.get_bin_on_value(x, edges) != [sum([1 for e in edges if e <= x]) - 1]:
                return h.ok(False)
        if sum(hist.bins) + hist.n_out_of_range != total:
            return h.ok(False)
        return h.ok(hist.edges == edges)


def check_fill_md(dims: int, ex0: int, wx1: int, wx2: int, nx: int,
                  ey0: int, wy1: int, wy2: int, ny: int,
                  ez0: int, wz1: int, nz: int,
                  cx: List[int], cy: List[int], cz: List[int], ws: List[int]) -> bool:
    """
    pre: 2 <= dims <= B.DIMS
    pre: wx1 >= 1 and wx2 >= 1 and wy1 >= 1 and wy2 >= 1 and wz1 >= 1
    pre: 2 <= nx <= 3 and 2 <= ny <= 3 and nz == 2
    pre: 1 <= len(ws) <= B.FILLS and len(cx) == len(ws) and len(cy) == len(ws) and len(cz) == len(ws)
    pre: h.in_shard(nx - 2 + 2 * (ny - 2) + 4 * (len(ws) - 1) + 4 * B.FILLS * (dims - 2))
    post: _
    """
    edges = [mk_edges(ex0, wx1, wx2, 1, nx), mk_edges(ey0, wy1, wy2, 1, ny)]
    if dims == 3:
        edges.append(mk_edges(ez0, wz1, 1, 1, nz))
    shape = [len(e) - 1 for e in edges]
    with cut():
        hist = histogram(copy.deepcopy(edges))
        ncells = 1
        for s in shape:
            ncells *= s
        want = [0] * ncells
        oor = 0
        total = 0
        for i in range(len(ws)):
            coord = [cx[i], cy[i]] + ([cz[i]] if dims == 3 else [])
            hist.fill(coord, ws[i])
            total += ws[i]
            idx = []
            inside = True
            for d in range(dims):
                k = sum([1 for e in edges[d] if e <= coord[d]]) - 1
                idx.append(k)
                if k < 0 or k >= shape[d]:
                    inside = False
            if hf.get_bin_on_value(coord, edges) != idx:
                return h.ok(False)
            if inside:
                flat = 0
                for d in range(dims):
                    flat = flat * shape[d] + idx[d]
                want[flat] += ws[i]
            else:
                oor += ws[i]
            if _flat(hist.bins) != want or hist.n_out_of_range != oor:
                return h.ok(False)
        return h.ok(sum(_flat(hist.bins)) + hist.n_out_of_range == total
                    and hist.edges == edges)


def check_histogram_element(e0: int, w1: int, w2: int, ne: int, xs: List[int],
                            with_ctx: bool, reset_at: int = -1) -> bool:
    """
    pre: w1 >= 1 and w2 >= 1
    pre: 2 <= ne <= 3
    pre: len(xs) <= B.FILLS
    pre: -1 <= reset_at <= len(xs)
    post: _
    """
    # the element may be reset and used again (FillRequest does that after
    # every block): bins + n_out_of_range then count the fills since the reset
    edges = mk_edges(e0, w1, w2, 1, ne)
    with cut():
        el = Histogram(list(edges))
        ref = histogram(list(edges))
        since = 0
        last = None
        for i, x in enumerate(xs):
            if i == reset_at:
                el.reset()
                ref = histogram(list(edges))
                since = 0
                last = None
            el.fill((x, {"i": i}) if with_ctx else x)
            ref.fill(x)
            since += 1
            last = i
        if reset_at == len(xs):
            el.reset()
            ref = histogram(list(edges))
            since = 0
            last = None
        res = list(el.compute())
    if len(res) != 1:
        return h.ok(False)
    hist, ctx = res[0]
    want_ctx = {"i": last} if (with_ctx and last is not None) else {}
    return h.ok(hist.bins == ref.bins and hist.n_out_of_range == ref.n_out_of_range
                and hist.edges == edges and ctx == want_ctx
                and sum(hist.bins) + hist.n_out_of_range == since)


def check_edges_rejected(a: int, b: int, c: int, n: int, md: bool) -> bool:
    """
    pre: 0 <= n <= 3
    pre: -1 <= a <= 1 and -1 <= b <= 1 and -1 <= c <= 1
    post: _
    """
    arr = [a, b, c][:n]
    good = n >= 2 and all([arr[i] < arr[i + 1] for i in range(n - 1)])
    edges = [arr, [0, 1]] if md else arr
    try:
        histogram(edges)
    except lena.core.LenaValueError:
        return h.ok(not good)
    return h.ok(good)


CONDITIONS = [
    dict(fn="kernel_exact", custom=True, shards=(7, 11), budget=(100, 1500)),
    dict(fn="kernel_robust", custom=True, shards=(7, 11), budget=(100, 1500)),
    dict(fn="translator_validation", custom=True, budget=(100, 300)),
    dict(fn="fp_lemmas", custom=True, shards=(4, 4), budget=(110, 1500)),
    dict(fn="fp_witness", custom=True, shards=(9, 9), budget=(60, 600)),
    dict(fn="check_fill_1d", budget=(80, 900),
         smoke=["check_fill_1d(0, 1, 2, 3, 4, [0, 1, 6, -1], [1, 2, 3, 4])",
                "check_fill_1d(0, 1, 1, 1, 2, [1], [5])"]),
    dict(fn="check_fill_md", shards=(8, 24), budget=(80, 1200),
         smoke=["check_fill_md(2, 0, 1, 1, 3, 0, 1, 1, 3, 0, 1, 2, [0, 1, 5], [1, 1, 0], [0, 0, 0], [1, 2, 3])",
                "check_fill_md(3, 0, 1, 1, 3, 0, 1, 1, 2, 0, 1, 2, [0, 1], [0, 0], [0, 5], [1, 2])"]),
    dict(fn="check_histogram_element", budget=(60, 600),
         smoke=["check_histogram_element(0, 1, 1, 3, [0, 1, 5], True)"]),
    dict(fn="check_edges_rejected", budget=(60, 300),
         smoke=["check_edges_rejected(1, 2, 3, 3, False)", "check_edges_rejected(1, 1, 3, 3, True)"]),
]
