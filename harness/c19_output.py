"""C19 - output files always match the current data and nothing unchanged is
redone."""
import builtins
import copy

import lena.core
import lena.output
import lena.output.write as write_mod
import lena.output.latex_to_pdf as l2p_mod
import lena.output.pdf_to_png as p2p_mod
from lena.core import Sequence
from lena.output import ToCSV, MakeFilename, Write, RenderLaTeX, LaTeXToPDF, PDFToPNG
from lena.structures import histogram

from verif import h
from verif.stubs.fakefs import world, FakeJinjaEnv

PROPERTY = "C19"
B = h.bounds(
    quick=dict(RUNS=2, PLOTS=2),
    thorough=dict(RUNS=3, PLOTS=2),
)
BOUNDS = dict(vars(B), meaning="histories of 1..RUNS runs of (ToCSV, MakeFilename, Write, RenderLaTeX, "
              "Write, LaTeXToPDF, PDFToPNG) over PLOTS plots; per run: data kept/changed, template "
              "kept/changed, any subset of {csv, tex, pdf, png} deleted before the run (4 bits); Write "
              "settings default / overwrite / existing_unchanged / (default, existing_unchanged); converter overwrite on/off; "
              "MakeFilename prefix/suffix/overwrite matrix")
FUNCTIONS = ["lena.output.write.Write.run/_make_filename/_write_data", "MakeFilename.__call__",
             "ToCSV.run", "RenderLaTeX.run", "LaTeXToPDF.run", "PDFToPNG.run", "pdf_to_png._run_command"]
STUBS = ["open/os/subprocess of lena.output.write, latex_to_pdf, pdf_to_png -> FakeFS/FakeOS/FakeSubprocess "
         "(pdflatex x.tex -> x.pdf = PDF(<tex>|<content of the csv the tex names>); pdftoppm -> PNG(<pdf>); "
         "synchronous, return code 0)", "RenderLaTeX environment -> FakeJinjaEnv "
         "(TEX[<template text>|CSV=<output.filepath>])", "builtin print swallowed"]
ASSUMPTIONS = ["the claim is about lena's decisions given a file system and converters behaving as the model",
               "logical clock for modification times"]
OUTSIDE = ["mtime granularity of real file systems", "pdflatex failures", "parallel converter processes",
           "existing_unchanged=True with changed data (documented: contents are assumed unchanged)"]


class quiet(object):
    def __enter__(self):
        self.old = builtins.print
        builtins.print = lambda *a, **k: None

    def __exit__(self, *exc):
        builtins.print = self.old
        return False


def data_hist(version, plot):
    return histogram([0, 1, 2], [version + 1 + 10 * plot, version + 2])


def expected_csv(version, plot):
    hist = data_hist(version, plot)
    rows = ["%f,%f" % (0, hist.bins[0]), "%f,%f" % (1, hist.bins[1]), "%f,%f" % (2, hist.bins[1])]
    return "\n".join(rows)


def chain(env, wmode, conv_over):
    kw = {}
    if wmode == 1:
        kw = {"overwrite": True}
    elif wmode == 2:
        kw = {"existing_unchanged": True}
    kw2 = dict(kw)
    if wmode == 3:
        # data files are checked, the rendered template is assumed unchanged
        kw2 = {"existing_unchanged": True}
    return Sequence(
        ToCSV(), MakeFilename("plot{{plot}}"), Write("out", verbose=False, **kw),
        RenderLaTeX("tpl.tex", environment=env), Write("out", verbose=False, **kw2),
        LaTeXToPDF(overwrite=conv_over, verbose=0), PDFToPNG(overwrite=conv_over, verbose=False),
    )


def paths(plot):
    base = "out/plot%d" % plot
    return [base + ".csv", base + ".tex", base + ".pdf", base + ".png"]


def check_history(nruns: int, nplots: int, cd0: bool, ct0: bool, del0: int, cd1: bool, ct1: bool,
                  del1: int, wmode: int, conv_over: bool, reuse: bool = False) -> bool:
    """
    pre: 1 <= nruns <= B.RUNS
    pre: 1 <= nplots <= B.PLOTS
    pre: 0 <= del0 <= 15 and 0 <= del1 <= 15
    pre: 0 <= wmode <= 3
    pre: h.in_shard(del0 + 16 * (1 if reuse else 0))
    post: _
    """
    nruns = h.concrete(nruns, 1, B.RUNS)
    nplots = h.concrete(nplots, 1, B.PLOTS)
    wmode = h.concrete(wmode, 0, 3)
    co = True if conv_over else False
    steps = [(False, False, 0)]
    if nruns >= 2:
        steps.append((True if cd0 else False, True if ct0 else False, h.concrete(del0, 0, 15)))
    if nruns >= 3:
        steps.append((True if cd1 else False, True if ct1 else False, h.concrete(del1, 0, 15)))
    if h.kf("C19-write-new-file-not-changed"):
        # known finding: a Write that re-creates a missing file does not
        # report output.changed (see known_findings.json)
        for cd, ct, dels in steps[1:]:
            if dels & 3:
                return True
    env = FakeJinjaEnv()
    version = 0
    tplv = 0
    with world([write_mod, l2p_mod, p2p_mod], with_subprocess=True) as fs, quiet():
        # reuse: one pipeline object runs the whole history (elements may keep
        # state between runs); otherwise the pipeline is rebuilt for every run
        pipeline = chain(env, wmode, co) if reuse else None
        for r, (cd, ct, dels) in enumerate(steps):
            if cd:
                version += 1
            if ct:
                tplv += 1
            env.templates["tpl.tex"] = "template-v%d" % tplv
            deleted = False
            for p in range(nplots):
                for bit, path in enumerate(paths(p)):
                    if dels & (1 << bit) and path in fs.files:
                        del fs.files[path]
                        deleted = True
            mark = len(fs.log)
            ncalls = len(fs.subprocess.calls)
            flow = [(data_hist(version, p), {"plot": p}) for p in range(nplots)]
            out = list((pipeline if reuse else chain(env, wmode, co)).run(iter(flow)))
            if len(out) != nplots:
                return h.ok(False)
            writes = fs.writes_since(mark)
            launched = len(fs.subprocess.calls) - ncalls
            for p in range(nplots):
                csv, tex, pdf, png = paths(p)
                # every yielded path exists where the context says
                data, ctx = out[p]
                o = ctx.get("output", {})
                if data != png or data not in fs.files:
                    return h.ok(False)
                if data != "out/" + o.get("filename", "?") + "." + o.get("fileext", "png").replace("tex", "png"):
                    return h.ok(False)
                if wmode == 2:
                    continue
                # contents: csv from the current data, tex from the current
                # template, pdf built from that tex and csv, png from that pdf
                want_csv = expected_csv(version, p)
                want_tex = "TEX[template-v%d|CSV=%s]" % (tplv, csv)
                if wmode == 3:
                    # the .tex on disk is trusted as it is (existing_unchanged):
                    # what is derived from it must follow the current data
                    if tex not in fs.files:
                        return h.ok(False)
                    want_tex = fs.files[tex]["content"]
                want_pdf = "PDF(" + want_tex + "|" + want_csv + ")"
                want_png = "PNG(" + want_pdf + ")"
                for path, want in ((csv, want_csv), (tex, want_tex), (pdf, want_pdf), (png, want_png)):
                    if path not in fs.files or fs.files[path]["content"] != want:
                        return h.ok(False)
            # a run whose inputs are unchanged rewrites nothing, converts nothing
            if r > 0 and not cd and (not ct or wmode == 3) and not deleted and wmode != 1 and not co:
                if writes or launched:
                    return h.ok(False)
                for p in range(nplots):
                    if out[p][1].get("output", {}).get("changed") is not False:
                        return h.ok(False)
            # output.changed is true downstream whenever something was rewritten
            if (r == 0 or cd or deleted or (ct and wmode != 3)) and wmode != 2:
                for p in range(nplots):
                    if out[p][1].get("output", {}).get("changed") is not True:
                        return h.ok(False)
    return h.ok(True)


def check_make_filename(has_name: bool, pre_ctx: int, prefix: int, suffix: int, overwrite: bool,
                        twice: bool) -> bool:
    """
    pre: 0 <= pre_ctx <= 3
    pre: 0 <= prefix <= 2 and 0 <= suffix <= 2
    post: _
    """
    pre_ctx = h.concrete(pre_ctx, 0, 3)
    prefix = h.concrete(prefix, 0, 2)
    suffix = h.concrete(suffix, 0, 2)
    ov = True if overwrite else False
    ctx = [{}, {"output": {"filename": "old"}}, {"output": {"prefix": "P_"}},
           {"output": {"suffix": "_S", "prefix": "P_"}}][pre_ctx]
    ctx = copy.deepcopy(ctx)
    ctx["name"] = "nm"
    els = []
    if prefix:
        els.append(MakeFilename(prefix=["", "a_", "{{name}}_"][prefix], overwrite=ov))
    if suffix:
        els.append(MakeFilename(suffix=["", "_z", "_{{name}}"][suffix], overwrite=ov))
    if has_name:
        els.append(MakeFilename("f_{{name}}", overwrite=ov))
    if twice and has_name:
        els.append(MakeFilename("g_{{name}}", overwrite=ov))
    val = (5, ctx)
    for el in els:
        val = el(val)
    data, out = val
    o = out.get("output", {})
    # reference
    pfx = {0: "", 2: "P_", 3: "P_"}.get(pre_ctx, "")
    sfx = "_S" if pre_ctx == 3 else ""
    if prefix:
        new = ["", "a_", "nm_"][prefix]
        pfx = new if ov else new + pfx
    if suffix:
        new = ["", "_z", "_nm"][suffix]
        sfx = new if ov else sfx + new
    fname = "old" if pre_ctx == 1 else None
    if has_name:
        if fname is None or ov:
            fname = pfx + "f_nm" + sfx
            pfx = sfx = ""
        if twice and ov:
            fname = pfx + "g_nm" + sfx
    if data != 5:
        return h.ok(False)
    if o.get("filename") != fname:
        return h.ok(False)
    if has_name and (pre_ctx != 1 or ov):
        # prefix and suffix were consumed exactly once
        return h.ok("prefix" not in o and "suffix" not in o)
    return h.ok(o.get("prefix", "") == pfx and o.get("suffix", "") == sfx)


def check_make_filename_keys(key: int, pre: int, other: int, overwrite: bool, all_three: bool) -> bool:
    """
    pre: 0 <= key <= 2
    pre: 0 <= pre <= 2
    pre: 0 <= other <= 2
    post: _
    """
    # every name MakeFilename can set (filename, dirname, fileext): an
    # existing name - also an empty one: dirname "" is the top directory,
    # fileext "" means no extension - is replaced only with overwrite
    k = h.choose(["filename", "dirname", "fileext"], key)
    k2 = h.choose(["fileext", "filename", "dirname"], key)
    ov = True if overwrite else False
    out = {}
    if pre:
        out[k] = "old" if pre == 1 else ""
    if other:
        out[k2] = "keep" if other == 1 else ""
    ctx = {"output": out, "name": "nm"} if out else {"name": "nm"}
    snap = copy.deepcopy(ctx)
    if all_three:
        el = MakeFilename(filename="new_{{name}}", dirname="new_{{name}}", fileext="new_{{name}}",
                          overwrite=ov)
    else:
        el = MakeFilename(overwrite=ov, **{k: "new_{{name}}"})
    data, got = el((7, ctx))
    o = got.get("output", {})
    want = "new_nm" if (not pre or ov) else ("old" if pre == 1 else "")
    if data != 7 or o.get(k, None) != want:
        return h.ok(False)
    if all_three:
        want2 = "new_nm" if (not other or ov) else ("keep" if other == 1 else "")
        return h.ok(o.get(k2, None) == want2 and got.get("name") == "nm")
    # nothing else is touched
    rest = dict(o)
    rest.pop(k, None)
    rest0 = dict(snap.get("output", {}))
    rest0.pop(k, None)
    return h.ok(rest == rest0 and got.get("name") == "nm")


CONDITIONS = [
    dict(fn="check_make_filename_keys", budget=(60, 300),
         smoke=["check_make_filename_keys(0, 0, 0, False, False)", "check_make_filename_keys(1, 2, 1, False, False)",
                "check_make_filename_keys(2, 2, 2, False, True)", "check_make_filename_keys(2, 1, 0, True, True)"]),
    dict(fn="check_history", shards=(32, 32), budget=(90, 1500),
         smoke=["check_history(2, 1, False, False, 0, False, False, 0, 0, False)",
                "check_history(2, 1, True, False, 4, False, False, 0, 0, False)",
                "check_history(2, 1, False, False, 0, False, False, 0, 1, True)",
                "check_history(2, 1, True, False, 0, False, False, 0, 3, False)", "check_history(2, 1, False, True, 0, False, False, 0, 3, False)"]),
    dict(fn="check_make_filename", budget=(70, 600),
         smoke=["check_make_filename(True, 0, 1, 1, False, False)", "check_make_filename(True, 3, 2, 0, False, True)",
                "check_make_filename(False, 2, 1, 2, True, False)", "check_make_filename(True, 1, 1, 0, True, True)"]),
]
