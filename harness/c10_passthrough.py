"""C10 - elements pass values they do not select through unchanged."""
import builtins
import copy
from typing import List

import lena.core
import lena.flow
import lena.output.write as write_mod
import lena.output.latex_to_pdf as l2p_mod
import lena.output.pdf_to_png as p2p_mod
from lena.flow import RunIf, MapGroup, get_data_context
from lena.output import ToCSV, Write, RenderLaTeX, LaTeXToPDF, PDFToPNG
from lena.structures import histogram, HistToGraph, MapBins, IterateBins

from verif import h
from verif.stubs.fakefs import world, FakeJinjaEnv

PROPERTY = "C10"
B = h.bounds(
    quick=dict(N=3, NF=4),
    thorough=dict(N=5, NF=6),
)
ELEMENTS = ["ToCSV", "Write", "RenderLaTeX", "LaTeXToPDF", "PDFToPNG", "HistToGraph", "MapBins",
            "IterateBins", "RunIf", "MapGroup(map_scalars=False)"]
BOUNDS = dict(vars(B), elements=ELEMENTS, meaning="every listed element; flows of <= N values = any "
              "interleaving (one symbolic bit per position) of values the element selects with values "
              "it does not (compared by identity AND against a deep snapshot taken before the run), the latter chosen by symbolic index among NF foreign values (number, tuple, "
              "(data, context) with unrelated context, user object, the element's disabling context such "
              "as output.write/to_csv False, a near-miss value)")
FUNCTIONS = ["ToCSV.run", "Write.run", "RenderLaTeX.run", "LaTeXToPDF.run", "PDFToPNG.run",
             "HistToGraph.run", "MapBins.run", "IterateBins.run", "RunIf.run", "MapGroup.run"]
STUBS = ["FakeFS/FakeOS/FakeSubprocess/FakeJinjaEnv (see C19)", "builtin print swallowed"]
ASSUMPTIONS = ["selected values are the harness's (small histograms, texts, file names)"]
OUTSIDE = ["real converters and template loaders", "flows longer than N"]


class quiet(object):
    def __enter__(self):
        self.old = builtins.print
        builtins.print = lambda *a, **k: None

    def __exit__(self, *exc):
        builtins.print = self.old
        return False


class Obj(object):
    pass


class Options(object):
    """A foreign record that happens to have a non-callable field `write`."""

    def __init__(self, serial):
        self.read = True
        self.write = False
        self.serial = serial


def add3(v):
    d, c = get_data_context(v)
    if isinstance(v, tuple) and len(v) == 2 and isinstance(v[1], dict):
        return (d + 3, c)
    return d + 3


def _pos(v):
    d = get_data_context(v)[0]
    return True if (isinstance(d, int) and not isinstance(d, bool) and d > 0) else False


def make_element(k, env):
    if k == 0:
        return ToCSV()
    if k == 1:
        return Write("out", verbose=False)
    if k == 2:
        return RenderLaTeX("tpl.tex", environment=env)
    if k == 3:
        return LaTeXToPDF(verbose=0)
    if k == 4:
        return PDFToPNG(verbose=False)
    if k == 5:
        return HistToGraph()
    if k == 6:
        # histograms are selected by the type of their bin content
        return MapBins(add3, select_bins=int)
    if k == 7:
        return IterateBins()
    if k == 8:
        # the inner sequence depends on the flow it is given (Slice), so that
        # batching consecutive selected values would be visible
        return RunIf(_pos, add3, lena.flow.Slice(1))
    return MapGroup(add3, map_scalars=False)


def selected(k, i, fs):
    """The i-th value element k acts on."""
    if k in (0, 5, 6):
        return (histogram([0, 1, 2], [i + 1, i + 2]), {"n": i})
    if k == 1:
        return ("text%d" % i, {"output": {"filename": "f%d" % i}})
    if k == 2:
        return ("csv%d" % i, {"output": {"filetype": "csv", "filepath": "out/f%d.csv" % i}})
    if k == 3:
        path = "out/f%d.tex" % i
        fs.files[path] = {"content": "TEX%d" % i, "records": [], "mtime": 1}
        return (path, {"output": {"filetype": "tex"}})
    if k == 4:
        path = "out/f%d.pdf" % i
        fs.files[path] = {"content": "PDF%d" % i, "records": [], "mtime": 1}
        return (path, {"output": {"filetype": "pdf"}})
    if k == 7:
        inner = [(histogram([0, 1], [i]), {"c": 0}), (histogram([0, 1], [i + 1]), {"c": 1})]
        # the second selected value has no context.variable of its own
        return (histogram([0, 1, 2], inner), {"variable": {"name": "x"}} if i == 0 else {"n": i})
    if k == 8:
        return i + 1
    return ([i, i + 1], {"group": [{"a": 1}, {"a": 1}]})


def foreign(k, j, serial=0):
    """A value element k must not touch (distinct for every serial)."""
    # the first one carries, besides an unrelated item, context keys that some
    # elements read for the values they *do* select (variable, bin)
    common = [(-5 - 10 * serial, {"x": {"y": 1}, "variable": {"name": "y"}, "bin": {"k": 1}}),
              tuple([1, 2, serial]), Obj(), -7 - 10 * serial]
    if j >= 2:
        return common[j - 2]
    j = j + 4
    # the element's own disabling context / near miss
    if k == 0:
        return [(histogram([0, 1], [3]), {"output": {"to_csv": False, "duplicate_last_bin": False}}),
                (Obj(), {"output": {"duplicate_last_bin": False}})][j - 4]
    if k == 1:
        return [("text", {"output": {"write": False}}), (Options(serial), {"output": {"filename": "nope"}})][j - 4]
    if k == 2:
        return [("x", {"output": {"filetype": "tex"}}), ("x", {"output": {}})][j - 4]
    if k == 3:
        return [("out/q.pdf", {"output": {"filetype": "pdf"}}), ("out/q.tex", {"output": {"filetype": "csv"}})][j - 4]
    if k == 4:
        return [("out/q.tex", {"output": {"filetype": "tex"}}), ("out/q.pdf", {})][j - 4]
    if k == 5:
        return [(histogram([0, 1], [3]), {"histogram": {"to_graph": False}}), ("hist", {})][j - 4]
    if k == 6:
        # not a histogram; a histogram whose bin content is a list (of ints)
        return [("bins", {"n": 1}), (histogram([0, 1, 2], [[1, 2], [3 + serial]]), {"n": 2})][j - 4]
    if k == 7:
        # a histogram of numbers; a histogram whose bin content is a list (of histograms)
        return [(histogram([0, 1, 2], [1, 2]), {"k": 1}),
                (histogram([0, 1, 2], [[histogram([0, 1], [serial])], [histogram([0, 1], [2])]]), {"k": 2})][j - 4]
    if k == 8:
        return [-10 * serial, "s%d" % serial][j - 4]
    return [(5, {"group": [{}]}), ([1, 2], {"grp": 1})][j - 4]


def snap(v):
    """A deep snapshot of a foreign value (to be compared with one taken after
    the run: the very same object must also be left *unchanged*)."""
    if isinstance(v, tuple) and len(v) == 2 and isinstance(v[1], dict):
        return ("pair", snap(v[0]), copy.deepcopy(v[1]))
    if isinstance(v, histogram):
        return ("hist", copy.deepcopy(v.edges), copy.deepcopy(v.bins))
    if isinstance(v, (Obj, Options)):
        return ("obj", copy.deepcopy(vars(v)))
    if isinstance(v, (list, tuple)):
        return (type(v).__name__, [snap(x) for x in v])
    return ("val", repr(v))


def run_once(k, plan):
    """plan: list of ('s', i) / ('f', j).  Returns (outputs, foreign objects in
    order, fs log, files, foreign values unchanged?)."""
    env = FakeJinjaEnv()
    env.templates["tpl.tex"] = "T"
    with world([write_mod, l2p_mod, p2p_mod], with_subprocess=True) as fs, quiet():
        flow = []
        foreigns = []
        for kind, idx in plan:
            if kind == "s":
                flow.append(selected(k, idx, fs))
            else:
                v = foreign(k, idx, len(foreigns))
                if isinstance(v, tuple) and len(v) == 2 and isinstance(v[1], dict):
                    v[1]["serial"] = len(foreigns)
                foreigns.append(v)
                flow.append(v)
        fs.log.append(("mark",))
        before = [snap(v) for v in foreigns]
        el = make_element(k, env)
        out = list(el.run(iter(flow)))
        unchanged = before == [snap(v) for v in foreigns]
        log = fs.log[fs.log.index(("mark",)) + 1:]
        files = fs.snapshot()
    return out, foreigns, log, files, unchanged


def norm(v):
    d, c = get_data_context(v)
    if isinstance(d, histogram):
        d = ("hist", d.edges, d.bins)
    elif hasattr(d, "coords"):
        d = ("graph", d.coords, d.field_names)
    return (repr(d), c)


def check_passthrough(k: int, n: int, m0: bool, m1: bool, m2: bool, m3: bool, m4: bool,
                      f0: int, f1: int, f2: int, f3: int, f4: int) -> bool:
    """
    pre: 0 <= k <= 9
    pre: 0 <= n <= B.N
    pre: h.in_shard(k + 10 * (n % 2) + 20 * (1 if m0 else 0))
    post: _
    """
    # flow of n values: position i is a selected value (m_i) or the foreign
    # value number f_i (read only where it is used)
    k = h.concrete(k, 0, 9)
    n = h.concrete(n, 0, B.N)
    ms = [m0, m1, m2, m3, m4]
    fs = [f0, f1, f2, f3, f4]
    plan = []
    ns = 0
    for i in range(n):
        if ms[i]:
            if ns >= 2:
                return True          # at most two selected values
            plan.append(("s", ns))
            ns += 1
        else:
            j = 0
            for c in range(1, B.NF):
                if fs[i] == c:
                    j = c
            plan.append(("f", j))
    out, foreigns, log, files, unchanged = run_once(k, plan)
    if not unchanged:
        return h.ok(False)           # same object, but modified in place
    # unselected values: the very same objects, same relative order
    pos = 0
    rest = []
    for o in out:
        if pos < len(foreigns) and (o is foreigns[pos] or (isinstance(o, int) and o == foreigns[pos])):
            pos += 1
        else:
            rest.append(o)
    if pos != len(foreigns):
        return h.ok(False)
    for f in foreigns:
        if len([o for o in out if o is f or (isinstance(f, int) and isinstance(o, int) and o == f)]) != 1:
            return h.ok(False)
    # what is produced for the selected values does not depend on the foreign
    # ones; nor does what happens to the file system / converters
    out2, _, log2, files2, _u = run_once(k, [p for p in plan if p[0] == "s"])
    if [norm(v) for v in rest] != [norm(v) for v in out2]:
        return h.ok(False)
    return h.ok(log == log2 and files == files2)


CONDITIONS = [
    dict(fn="check_passthrough", shards=(40, 40), budget=(90, 1200),
         smoke=["check_passthrough(0, 3, True, False, True, False, False, 0, 0, 0, 0, 0)", "check_passthrough(1, 3, False, True, False, False, False, 0, 0, 1, 0, 0)",
                "check_passthrough(2, 2, True, False, False, False, False, 0, 0, 0, 0, 0)", "check_passthrough(3, 3, False, True, False, False, False, 0, 0, 3, 0, 0)",
                "check_passthrough(4, 3, True, False, True, False, False, 0, 0, 0, 0, 0)", "check_passthrough(5, 2, False, True, False, False, False, 0, 0, 0, 0, 0)",
                "check_passthrough(6, 2, True, False, False, False, False, 0, 1, 0, 0, 0)", "check_passthrough(7, 3, True, False, False, False, False, 0, 0, 2, 0, 0)",
                "check_passthrough(8, 3, True, False, True, False, False, 0, 0, 0, 0, 0)", "check_passthrough(9, 3, False, True, False, False, False, 0, 0, 1, 0, 0)"]),
]
