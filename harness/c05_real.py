"""C05, engine R layer: the same chain pre? acc driven as Sequence.run, as a
Split branch and as FillComputeSeq, over *symbolic real* flows
(verif.symreal).  Under CrossHair Mean / VarianceMeanCount run on the value
domain -2..2 (x**2 aborts the analysis); here every datum is a solver
variable and the three drivers must produce equal numbers on every path
(validity in non-linear real arithmetic)."""
import sys

import lena.core
import lena.flow
import lena.math
from lena.core import Sequence, Split, FillComputeSeq, LenaStopFill
from lena.flow import Filter, Slice, RunIf, get_data_context
from lena.math import Sum, Mean, VarianceMeanCount, Vectorize
from lena.variables import Variable

from verif import symreal as R

elements_mod = sys.modules["lena.math.elements"]


def add3(v):
    return v + 3


def _dbl(x):
    return x + x


def _positive(v):
    return True if get_data_context(v)[0] > 0 else False


def make_pre(kind):
    if kind == 1:
        return [add3]
    if kind == 2:
        return [Variable("x2", _dbl)]
    if kind == 3:
        return [Filter(_positive)]
    if kind == 4:
        return [Slice(1, 3)]
    if kind == 5:
        return [RunIf(_positive, add3)]
    if kind == 6:
        return [Filter(_positive), Slice(0, 2)]
    if kind == 7:
        # the inner sequence depends on the flow it is given
        return [RunIf(_positive, add3, Slice(1))]
    return []


PRES = ["none", "callable", "Variable", "Filter(positive)", "Slice(1,3)", "RunIf(positive, callable)",
        "Filter(positive), Slice(0,2)", "RunIf(positive, callable, Slice(1))"]
ACCS = ["Sum", "Mean", "VarianceMeanCount", "VarianceMeanCount(corrected=False)", "(pair, Vectorize(Mean))"]


def _pair(v):
    d = get_data_context(v)[0]
    return (d, d * d)


def make_acc(kind):
    if kind == 0:
        return [Sum()]
    if kind == 1:
        return [Mean()]
    if kind == 2:
        return [VarianceMeanCount()]
    if kind == 3:
        return [VarianceMeanCount(corrected=False)]
    return [_pair, Vectorize(Mean(), dim=2)]


def numbers(v, out):
    """Flatten a result into its numbers (named tuples, tuples, (data, context))."""
    if isinstance(v, tuple) and len(v) == 2 and isinstance(v[1], dict):
        numbers(v[0], out)
        return out
    if isinstance(v, (tuple, list)):
        for x in v:
            numbers(x, out)
        return out
    out.append(v)
    return out


def _stop_tag(v):
    return ("stopper", 0)


def drive(which, els, bufsize, flow):
    try:
        if which == 0:
            return ("ok", list(Sequence(*els).run(iter(flow))))
        if which == 1:
            return ("ok", list(Split([tuple(els)], bufsize=bufsize).run(iter(flow))))
        if which == 3:
            # the chain as second branch after a branch that stops at once
            stopper = (Slice(0), lena.flow.StoreFilled(), _stop_tag)
            out = list(Split([stopper, tuple(els)], bufsize=bufsize).run(iter(flow)))
            return ("ok", [v for v in out if not (isinstance(v, tuple) and len(v) == 2
                                                  and isinstance(v[0], str) and v[0] == "stopper")])
        fcs = FillComputeSeq(*els)
        for v in flow:
            try:
                fcs.fill(v)
            except LenaStopFill:
                break
        return ("ok", list(fcs.compute()))
    except lena.core.LenaZeroDivisionError:
        return ("raises", "LenaZeroDivisionError")


def sc_drivers(c, pre, acc, n, bufsize):
    with R.stubs(elements_mod):
        xs = [c.fresh("x%d" % (i + 1)) for i in range(n)]
        res = [drive(w, make_pre(pre) + make_acc(acc), bufsize, list(xs)) for w in range(4)]
        for w in (1, 2, 3):
            c.check("driver %d: same outcome kind as Sequence.run" % w, res[w][0] == res[0][0])
            if res[w][0] != res[0][0] or res[0][0] != "ok":
                continue
            a, b = numbers(res[0][1], []), numbers(res[w][1], [])
            c.check("driver %d: same number of results" % w, len(a) == len(b))
            for x, y in zip(a, b):
                c.check("driver %d == Sequence.run" % w, y, x)


SCENARIOS = {"drivers": sc_drivers}


def cases(tier):
    nmax, bufs = (4, (1, 2, 3, None)) if tier == "thorough" else (3, (1, 2))
    return [(p, a, n, b) for p in range(len(PRES)) for a in range(len(ACCS))
            for n in range(nmax + 1) for b in bufs]


def replay_real(name, args_json, assignment_json):
    return R.replay(SCENARIOS, name, args_json, assignment_json)


def run_cases(name, cs, budget):
    return R.run_cases("harness.c05_real", SCENARIOS, name, cs, budget)
