"""C12 - histogram and graph arithmetic, scaling and conversions keep every cell."""
import copy

import lena.core
import lena.structures
import lena.structures.hist_functions as hf
from lena.core import LenaValueError, LenaTypeError
from lena.output import ToCSV
from lena.structures import (histogram, graph, hist_to_graph, iter_bins, iter_bins_with_edges,
                             iter_cells, ScaleTo)

from verif import h

PROPERTY = "C12"
B = h.bounds(
    quick=dict(DIM=2, NB=2),
    thorough=dict(DIM=3, NB=3),
)
NAMINGS = [("x",), ("x", "y"), ("x", "y", "error_y"), ("x", "y", "error_x"),
           ("x", "y", "error_x", "error_y"), ("x", "y", "z"),
           ("x", "y", "z", "error_z_low", "error_z_high"),
           ("x", "y", "error_y_low", "error_y_high", "error_x"), ("E", "time", "error_E_low", "error_time"),
           ("x2", "x", "error_x2", "error_x"), ("xy", "x", "error_xy_low", "error_x_low")]
BOUNDS = dict(vars(B), namings=NAMINGS, meaning="histograms of 1..DIM dimensions with 1..NB bins per "
              "axis (non-uniform integer edges), contents = distinct integer tags chosen by a symbolic "
              "offset (0..2) and sign; target scale / event number: any non-zero symbolic integer; add "
              "weight in -2..3; graphs in every listed naming; get_coordinate modes; iteration ranges; "
              "duplicate_last_bin both")
FUNCTIONS = ["histogram.scale", "histogram.add", "histogram.get_nevents/set_nevents", "hist_functions.integral",
             "hist_functions.unify_1_md", "graph.scale/_get_err_indices/_parse_error_names", "hist_to_graph",
             "iter_bins", "iter_bins_with_edges", "iter_cells (index ranges)", "hist1d_to_csv", "hist2d_to_csv",
             "ToCSV.run", "ScaleTo.__call__", "lena.math.md_map"]
STUBS = []
ASSUMPTIONS = ["floats are reals during the symbolic search; the oracle uses a relative tolerance and a "
               "candidate counts only after failing concretely",
               "contents are concrete tags: symbolic contents x symbolic scale is non-linear, and "
               "histogram.__init__/'{:f}' format their arguments (C boundary)"]
OUTSIDE = ["symbolic contents jointly with symbolic scale", "iter_cells(coord_ranges=...) "
           "(documented as unstable on edges)", "histograms of more than DIM dimensions"]

# one more edge than NB + 1 bins need (check_hist_to_graph / check_iterators / check_to_csv use up to NB + 1 bins)
AX = [[0, 1, 3, 6, 10], [10, 12, 15, 19, 24], [-1, 0, 2, 5, 9]]


def mkhist(dim, n0, n1, n2, off, neg):
    ns = [n0, n1, n2][:dim]
    edges = [AX[d][:ns[d] + 1] for d in range(dim)]
    sign = -1 if neg else 1

    def fill(d, base):
        if d == dim:
            return sign * (base + off + 1)
        return [fill(d + 1, base * 4 + i + 1) for i in range(ns[d])]
    bins = fill(0, 0)
    if dim == 1:
        return histogram(list(edges[0]), bins), [list(edges[0])], ns
    return histogram(copy.deepcopy(edges), bins), edges, ns


def flat(bins):
    if isinstance(bins, list):
        out = []
        for b in bins:
            out += flat(b)
        return out
    return [bins]


def close(a, b):
    d = a - b
    lim = 1e-9 * (1.0 + (b if b >= 0 else -b))
    return True if (-lim <= d and d <= lim) else False


def _args(dim, n0, n1, n2, off):
    dim = h.concrete(dim, 1, B.DIM)
    return (dim, h.concrete(n0, 1, B.NB), h.concrete(n1, 1, B.NB) if dim > 1 else 1,
            h.concrete(n2, 1, B.NB) if dim > 2 else 1, h.concrete(off, 0, 2))


def ref_integral(hist, edges, ns, dim):
    tot = 0
    idx = [0] * dim
    cells = flat(hist.bins)
    k = 0
    import itertools
    for index in itertools.product(*[range(n) for n in ns]):
        vol = 1
        for d, i in enumerate(index):
            vol *= edges[d][i + 1] - edges[d][i]
        tot += vol * cells[k]
        k += 1
    return tot


def _hist_scale(dim, n0, n1, n2, off, neg, s, oor, via_el):
    dim, n0, n1, n2, off = _args(dim, n0, n1, n2, off)
    hist, edges, ns = mkhist(dim, n0, n1, n2, off, True if neg else False)
    hist.n_out_of_range = h.concrete(oor, 0, 3)
    before = flat(hist.bins)
    oor0 = hist.n_out_of_range
    e0 = copy.deepcopy(hist.edges)
    old = hist.scale()
    if not close(old, ref_integral(hist, edges, ns, dim)):
        return bool(False)
    if via_el:
        ScaleTo(s)((hist, {}))
    else:
        hist.scale(s)
    after = flat(hist.bins)
    for a, b in zip(after, before):
        if not close(a * old, b * s):
            return bool(False)
    if not close(hist.n_out_of_range * old, oor0 * s):
        return bool(False)
    if hist.edges != e0:
        return bool(False)
    return bool(close(hist.scale(), s) and close(hist.scale(recompute=True), s))


def check_hist_scale(dim: int, n0: int, n1: int, n2: int, off: int, neg: bool, s: int,
                     oor: int, via_el: bool) -> bool:
    """
    pre: 1 <= dim <= B.DIM
    pre: 1 <= n0 <= B.NB and 1 <= n1 <= B.NB and 1 <= n2 <= B.NB
    pre: 0 <= off <= 2
    pre: s != 0 and -4 <= s <= 7
    pre: 0 <= oor <= 3
    pre: h.in_shard(dim - 1 + B.DIM * (n0 - 1))
    post: _
    """
    return h.ok(_hist_scale(dim, n0, n1, n2, off, neg, h.concrete(s, -4, 7), oor, via_el))


def hunt_hist_scale(dim: int, n0: int, n1: int, off: int, neg: bool, s: float) -> bool:
    """
    pre: 1 <= dim <= 2
    pre: 1 <= n0 <= B.NB and 1 <= n1 <= B.NB
    pre: 0 <= off <= 2
    pre: s != 0 and -1e9 < s < 1e9
    post: _
    """
    return h.ok(_hist_scale(dim, n0, n1, 1, off, neg, s, 1, False))


def check_hist_zero_scale(dim: int, n0: int, n1: int, s: int) -> bool:
    """
    pre: 1 <= dim <= 2
    pre: 1 <= n0 <= B.NB and 1 <= n1 <= B.NB
    post: _
    """
    dim = h.concrete(dim, 1, 2)
    n0, n1 = h.concrete(n0, 1, B.NB), h.concrete(n1, 1, B.NB)
    edges = [AX[d][:[n0, n1][d] + 1] for d in range(dim)]
    hist = histogram(list(edges[0])) if dim == 1 else histogram(copy.deepcopy(edges))
    snap = copy.deepcopy(hist.bins)
    try:
        hist.scale(s)
        return h.ok(False)
    except LenaValueError:
        pass
    try:
        hist.set_nevents(s)
        return h.ok(False)
    except LenaValueError:
        pass
    return h.ok(hist.bins == snap and hist.n_out_of_range == 0)


def check_hist_add(dim: int, n0: int, n1: int, n2: int, offa: int, offb: int, neg: bool,
                   w: int, edge_mode: int) -> bool:
    """
    pre: 1 <= dim <= B.DIM
    pre: 1 <= n0 <= B.NB and 1 <= n1 <= B.NB and 1 <= n2 <= B.NB
    pre: 0 <= offa <= 2 and 0 <= offb <= 2
    pre: -2 <= w <= 3
    pre: 0 <= edge_mode <= 3
    pre: h.in_shard(dim - 1 + B.DIM * (n0 - 1) + B.DIM * B.NB * edge_mode)
    post: _
    """
    dim, n0, n1, n2, offa = _args(dim, n0, n1, n2, offa)
    offb = h.concrete(offb, 0, 2)
    w = h.concrete(w, -2, 3)
    a, edges, ns = mkhist(dim, n0, n1, n2, offa, False)
    b, _, _ = mkhist(dim, n0, n1, n2, offb, True if neg else False)
    a.n_out_of_range, b.n_out_of_range = 2, 3
    # edge_mode 0: equal edges; 1: shifted by 1; 2: shifted by 1e-10 (a different
    # mesh: the edge 0 is not within the relative tolerance 1e-9 of 1e-10);
    # 3: scaled by (1 + 1e-12) (equal within the relative tolerance)
    edge_mode = h.concrete(edge_mode, 0, 3)
    same_edges = edge_mode in (0, 3)
    if edge_mode:
        f = {1: (lambda x: x + 1), 2: (lambda x: x + 1e-10), 3: (lambda x: x * (1 + 1e-12))}[edge_mode]
        if dim == 1:
            b = histogram([f(x) for x in b.edges], b.bins)
        else:
            b = histogram([[f(x) for x in ax] for ax in b.edges], b.bins)
        b.n_out_of_range = 3
    sa, sb = copy.deepcopy((a.bins, a.edges, a.n_out_of_range)), copy.deepcopy((b.bins, b.edges, b.n_out_of_range))
    try:
        c = a.add(b, w)
    except LenaValueError:
        return h.ok(not same_edges)
    if not same_edges:
        return h.ok(False)
    want = [x + w * y for x, y in zip(flat(sa[0]), flat(sb[0]))]
    ok = (flat(c.bins) == want and c.edges == sa[1] and c.n_out_of_range == 2 + 3 * w)
    unchanged = ((a.bins, a.edges, a.n_out_of_range) == sa and (b.bins, b.edges, b.n_out_of_range) == sb)
    return h.ok(ok and unchanged and c is not a and c.bins is not a.bins)


def check_set_nevents(dim: int, n0: int, n1: int, n2: int, off: int, n: int, incl: bool) -> bool:
    """
    pre: 1 <= dim <= B.DIM
    pre: 1 <= n0 <= B.NB and 1 <= n1 <= B.NB and 1 <= n2 <= B.NB
    pre: 0 <= off <= 2
    pre: n != 0 and -3 <= n <= 6
    pre: h.in_shard(dim - 1 + B.DIM * (n0 - 1))
    post: _
    """
    dim, n0, n1, n2, off = _args(dim, n0, n1, n2, off)
    hist, edges, ns = mkhist(dim, n0, n1, n2, off, False)
    hist.n_out_of_range = 2
    n = h.concrete(n, -3, 6)
    inc = True if incl else False
    tot = sum(flat(hist.bins)) + (2 if inc else 0)
    if hist.get_nevents(include_out_of_range=inc) != tot:
        return h.ok(False)
    e0 = copy.deepcopy(hist.edges)
    hist.set_nevents(n, include_out_of_range=inc)
    return h.ok(close(hist.get_nevents(include_out_of_range=inc), n) and hist.edges == e0)


def _graph_scale(naming, npts, old, s):
    names = h.choose(NAMINGS, naming)
    npts = h.concrete(npts, 1, 3)
    old = h.concrete(old, -2, 3)
    coords = [[(c + 1) * 10 + p for p in range(npts)] for c in range(len(names))]
    scale0 = None if old == -2 else old
    g = graph(copy.deepcopy(coords), field_names=names, scale=scale0)
    if g.scale() != scale0:
        return bool(False)
    try:
        g.scale(s)
    except LenaValueError:
        return bool((scale0 is None or scale0 == 0) and g.coords == coords)
    if scale0 is None or scale0 == 0:
        return bool(False)
    ncoord = len([nm for nm in names if not nm.startswith("error_")])
    last = names[ncoord - 1]
    for c, nm in enumerate(names):
        scaled = (c == ncoord - 1) or (nm.startswith("error_")
                                       and (nm[6:] == last or nm[6:].startswith(last + "_")))
        for p in range(npts):
            if scaled:
                if not close(g.coords[c][p] * scale0, coords[c][p] * s):
                    return bool(False)
            elif g.coords[c][p] != coords[c][p]:
                return bool(False)
    return bool(g.scale() == s and g.dim == ncoord)


def check_graph_scale(naming: int, npts: int, old: int, s: int) -> bool:
    """
    pre: 0 <= naming <= 10
    pre: 1 <= npts <= 3
    pre: -2 <= old <= 3
    pre: s != 0 and -4 <= s <= 7
    pre: h.in_shard(naming)
    post: _
    """
    return h.ok(_graph_scale(naming, npts, old, h.concrete(s, -4, 7)))


def hunt_graph_scale(naming: int, npts: int, old: int, s: float) -> bool:
    """
    pre: 0 <= naming <= 10
    pre: 1 <= npts <= 2
    pre: -2 <= old <= 3
    pre: s != 0 and -1e9 < s < 1e9
    post: _
    """
    return h.ok(_graph_scale(naming, npts, old, s))


def check_hist_to_graph(dim: int, n0: int, n1: int, off: int, mode: int, with_scale: bool) -> bool:
    """
    pre: 1 <= dim <= 2
    pre: 1 <= n0 <= B.NB + 1 and 1 <= n1 <= B.NB
    pre: 0 <= off <= 2
    pre: 0 <= mode <= 2
    post: _
    """
    dim = h.concrete(dim, 1, 2)
    n0, n1, off = h.concrete(n0, 1, B.NB + 1), h.concrete(n1, 1, B.NB), h.concrete(off, 0, 2)
    hist, edges, ns = mkhist(dim, n0, n1, 1, off, False)
    m = h.choose(["left", "right", "middle"], mode)
    names = ("x", "y") if dim == 1 else ("x", "y", "z")
    g = hist_to_graph(hist, get_coordinate=m, field_names=names, scale=True if with_scale else None)
    pts = list(g)
    import itertools
    cells = flat(hist.bins)
    k = 0
    if len(pts) != len(cells):
        return h.ok(False)
    for index in itertools.product(*[range(n) for n in ns]):
        coord = []
        for d, i in enumerate(index):
            lo, hi = edges[d][i], edges[d][i + 1]
            coord.append(lo if m == "left" else (hi if m == "right" else 0.5 * (lo + hi)))
        if tuple(pts[k]) != tuple(coord) + (cells[k],):
            return h.ok(False)
        k += 1
    if with_scale and not close(g.scale(), hist.scale()):
        return h.ok(False)
    return h.ok(g.field_names == names)


def check_iterators(dim: int, n0: int, n1: int, n2: int, off: int, lo: int, hi: int) -> bool:
    """
    pre: 1 <= dim <= B.DIM
    pre: 1 <= n0 <= B.NB + 1 and 1 <= n1 <= B.NB and 1 <= n2 <= B.NB
    pre: 0 <= off <= 2
    pre: -1 <= lo <= 4 and -1 <= hi <= 4
    pre: h.in_shard(dim - 1 + B.DIM * (n0 - 1))
    post: _
    """
    dim = h.concrete(dim, 1, B.DIM)
    n0 = h.concrete(n0, 1, B.NB + 1)
    n1 = h.concrete(n1, 1, B.NB) if dim > 1 else 1
    n2 = h.concrete(n2, 1, B.NB) if dim > 2 else 1
    off = h.concrete(off, 0, 2)
    lo, hi = h.concrete(lo, -1, 4), h.concrete(hi, -1, 4)
    hist, edges, ns = mkhist(dim, n0, n1, n2, off, False)
    import itertools
    want = []
    cells = flat(hist.bins)
    for k, index in enumerate(itertools.product(*[range(n) for n in ns])):
        want.append((tuple(index), cells[k],
                     tuple([(edges[d][i], edges[d][i + 1]) for d, i in enumerate(index)])))
    a = [(i, b) for i, b in iter_bins(hist.bins)]
    b_ = [(b, e) for b, e in iter_bins_with_edges(hist.bins, hist.edges)]
    c = [(tuple(cell.index), cell.bin, tuple([tuple(e) for e in cell.edges]))
         for cell in iter_cells(hist)]
    if a != [(w[0], w[1]) for w in want]:
        return h.ok(False)
    if b_ != [(w[1], w[2]) for w in want]:
        return h.ok(False)
    if c != want:
        return h.ok(False)
    # index ranges on the first axis: lower included, upper excluded
    rng = ((None if lo < 0 else lo, None if hi < 0 else hi),) + ((None, None),) * (dim - 1)
    try:
        sub = [tuple(cell.index) for cell in iter_cells(hist, ranges=rng)]
    except LenaValueError:
        return h.ok(hi > n0)
    if hi > n0:
        return h.ok(False)
    l, u = (0 if lo < 0 else lo), (n0 if hi < 0 else hi)
    return h.ok(sub == [w[0] for w in want if l <= w[0][0] < u])


def check_to_csv(dim: int, n0: int, n1: int, off: int, dup: bool, ctx_dup: int) -> bool:
    """
    pre: 1 <= dim <= 2
    pre: 1 <= n0 <= B.NB + 1 and 1 <= n1 <= B.NB
    pre: 0 <= off <= 2
    pre: 0 <= ctx_dup <= 2
    post: _
    """
    dim = h.concrete(dim, 1, 2)
    n0, n1, off = h.concrete(n0, 1, B.NB + 1), h.concrete(n1, 1, B.NB), h.concrete(off, 0, 2)
    hist, edges, ns = mkhist(dim, n0, n1, 1, off, False)
    d = True if dup else False
    ctx = {}
    if ctx_dup:
        ctx = {"output": {"duplicate_last_bin": ctx_dup == 1}}
        eff = ctx_dup == 1
    else:
        eff = d
    res = list(ToCSV(duplicate_last_bin=d).run(iter([(hist, ctx)])))
    if len(res) != 1:
        return h.ok(False)
    text, octx = res[0]
    rows = [[float(x) for x in line.split(",")] for line in text.split("\n")]
    if octx.get("output", {}).get("filetype") != "csv":
        return h.ok(False)
    want = []
    if dim == 1:
        for i in range(n0):
            want.append([edges[0][i], hist.bins[i]])
        if eff:
            want.append([edges[0][n0], hist.bins[n0 - 1]])
    else:
        for i in range(n0 + (1 if eff else 0)):
            ii = min(i, n0 - 1)
            for j in range(n1 + (1 if eff else 0)):
                jj = min(j, n1 - 1)
                want.append([edges[0][i], edges[1][j], hist.bins[ii][jj]])
    if len(rows) != len(want):
        return h.ok(False)
    for r, w in zip(rows, want):
        if len(r) != len(w):
            return h.ok(False)
        for x, y in zip(r, w):
            if abs(x - y) > 1e-6:
                return h.ok(False)
    return h.ok(True)


# ---------------------------------------------------------------- engine R
# (symbolic real contents x edges x scale x weight; see harness/c12_real.py)

def _real_cases(name):
    from harness import c12_real as cr
    shapes = cr.SHAPES_T if h.TIER == "thorough" else cr.SHAPES_Q
    if name == "hist_scale":
        return [(sh, el) for sh in shapes for el in (False, True)]
    if name == "hist_add":
        cases = [(sh, None) for sh in shapes]
        for sh in shapes:
            for ax in range(len(sh)):
                for i in sorted(set([0, sh[ax] // 2, sh[ax]])):
                    cases.append((sh, (ax, i)))
        return cases
    if name == "set_nevents":
        return [(sh, inc) for sh in shapes for inc in (False, True)]
    if name == "graph_scale":
        pts = (1, 2, 3) if h.TIER == "thorough" else (1, 2)
        return [(n, p, u) for n in range(len(cr.NAMINGS)) for p in pts for u in (False, True)]
    if name == "hist_to_graph":
        return [(sh, m, sc) for sh in shapes for m in (0, 1, 2) for sc in (False, True)]
    raise KeyError(name)


def _real(name, budget):
    from harness import c12_real as cr
    cases = _real_cases(name)
    mine = [c for i, c in enumerate(cases) if i % h.SHARD_N == h.SHARD_I]
    return cr.run_cases(name, mine, budget)


def real_hist_scale(budget):
    return _real("hist_scale", budget)


def real_hist_add(budget):
    return _real("hist_add", budget)


def real_set_nevents(budget):
    return _real("set_nevents", budget)


def real_graph_scale(budget):
    return _real("graph_scale", budget)


def real_hist_to_graph(budget):
    return _real("hist_to_graph", budget)


CONDITIONS = [
    dict(fn="real_hist_scale", custom=True, shards=(2, 4), budget=(60, 600)),
    dict(fn="real_hist_add", custom=True, shards=(2, 4), budget=(60, 600)),
    dict(fn="real_set_nevents", custom=True, shards=(2, 4), budget=(60, 600)),
    dict(fn="real_graph_scale", custom=True, shards=(2, 4), budget=(60, 600)),
    dict(fn="real_hist_to_graph", custom=True, shards=(2, 4), budget=(60, 600)),
    dict(fn="check_hist_scale", shards=(4, 9), budget=(150, 900),
         smoke=["check_hist_scale(1, 2, 1, 1, 0, False, 5, 2, False)", "check_hist_scale(2, 2, 2, 1, 1, True, -3, 0, True)"]),
    dict(fn="check_hist_zero_scale", budget=(60, 300), smoke=["check_hist_zero_scale(2, 2, 1, 4)"]),
    dict(fn="check_hist_add", shards=(16, 36), budget=(80, 900),
         smoke=["check_hist_add(1, 2, 1, 1, 0, 1, False, 2, 0)", "check_hist_add(2, 2, 2, 1, 0, 1, True, -1, 1)",
                "check_hist_add(1, 2, 1, 1, 0, 1, False, 2, 2)", "check_hist_add(2, 2, 2, 1, 0, 1, False, 2, 3)"]),
    dict(fn="check_set_nevents", shards=(4, 9), budget=(80, 900),
         smoke=["check_set_nevents(2, 2, 2, 1, 1, 5, True)"]),
    dict(fn="check_graph_scale", shards=(4, 11), budget=(80, 900),
         smoke=["check_graph_scale(4, 2, 2, 5)", "check_graph_scale(7, 2, 3, -1)", "check_graph_scale(1, 2, -2, 4)", "check_graph_scale(9, 2, 2, 6)"]),
    dict(fn="hunt_hist_scale", kind="bughunt", no_twin=True, budget=(40, 300), tiers=("thorough",),
         smoke=["hunt_hist_scale(2, 2, 2, 1, True, -3.5)"]),
    dict(fn="hunt_graph_scale", kind="bughunt", no_twin=True, budget=(40, 300), tiers=("thorough",),
         smoke=["hunt_graph_scale(7, 2, 3, -1.5)"]),
    dict(fn="check_hist_to_graph", budget=(80, 600),
         smoke=["check_hist_to_graph(1, 3, 1, 0, 2, True)", "check_hist_to_graph(2, 2, 2, 1, 0, False)"]),
    dict(fn="check_iterators", shards=(6, 12), budget=(80, 900),
         smoke=["check_iterators(2, 2, 2, 1, 0, 1, 2)", "check_iterators(1, 3, 1, 1, 0, -1, 4)"]),
    dict(fn="check_to_csv", budget=(80, 600),
         smoke=["check_to_csv(1, 3, 1, 0, True, 0)", "check_to_csv(2, 2, 2, 1, False, 1)"]),
]
