"""C11 - SplitIntoBins runs the analysis per cell on exactly that cell's values;
IterateBins enumerates every cell once; MapBins keeps shape and edges."""
import copy
from typing import List

import lena.core
import lena.flow
from lena.core import FillComputeSeq, FillCompute, Split
from lena.flow import Count, StoreFilled, get_data_context
from lena.math import Sum
from lena.structures import SplitIntoBins, IterateBins, MapBins, histogram
from lena.variables import Variable

from verif import h
from harness.c06_histogram import cut

PROPERTY = "C11"
B = h.bounds(
    quick=dict(EDGES=3, FLOW=2, NAN=5, DIM2=1, XMAX=4, N2=1, K2=1),
    thorough=dict(EDGES=4, FLOW=3, NAN=6, DIM2=1, XMAX=6, N2=2, K2=3),
)
ANALYSES = ["Sum", "(add3, Sum)", "FillCompute(Count())", "(Variable, Sum) - mutates context",
            "StoreFilled - arrival order", "Split([Sum, Count]) - two results per cell"]
BOUNDS = dict(vars(B), analyses=ANALYSES, meaning="1-d edges from 0 with symbolic widths 1..2 "
              "(<= EDGES edges) [and a 2x2-cell 2-d layout when DIM2], flows of <= FLOW symbolic "
              "integer coordinates in -1..XMAX (inside, on the border, outside) bare or with context, the first "
              "NAN analyses; IterateBins/MapBins on 1-d (1..3 cells) and 2-d (<= 2x2) histograms")
FUNCTIONS = ["lena.structures.split_into_bins.SplitIntoBins.__init__/fill/compute", "IterateBins.run",
             "MapBins.run", "_MdSeqMap", "lena.math.meshes.md_map", "hist_functions.init_bins",
             "hist_functions.iter_bins_with_edges", "hist_functions.get_bin_on_value",
             "hist_functions.get_example_bin", "hist_functions.cell_to_string"]
STUBS = ["get_bin_on_value_1d cut to the linear scan (C06 layer K)"]
ASSUMPTIONS = ["the argument variable is the identity on integer coordinates (pairs in 2-d)"]
OUTSIDE = ["3 and more dimensions", "analyses outside the listed ones"]


def add3(v):
    d, c = get_data_context(v)
    if isinstance(v, tuple) and len(v) == 2 and isinstance(v[1], dict):
        return (d + 3, c)
    return d + 3


def _dbl(x):
    return x + x


def _id(x):
    return x


def analysis(kind):
    if kind == 0:
        return Sum()
    if kind == 1:
        return (add3, Sum())
    if kind == 2:
        return FillCompute(Count())
    if kind == 3:
        return (Variable("v", _dbl, type="t"), Sum())
    if kind == 4:
        return StoreFilled()
    return Split([Sum(), FillCompute(Count())])


def as_fcs(kind):
    a = analysis(kind)
    if isinstance(a, tuple):
        return FillComputeSeq(*a)
    return FillComputeSeq(a)


def _first(v):
    d, c = get_data_context(v)
    return (d[0], c)


def as_fcs2(kind):
    """Analyses for 2-d (pair) data."""
    if kind == 0:
        return FillComputeSeq(StoreFilled())
    if kind == 1:
        return FillComputeSeq(FillCompute(Count()))
    return FillComputeSeq(_first, Sum())


def mkval(x, i, with_ctx):
    return (x, {"i": i}) if with_ctx else x


def check_split_1d(kind: int, w1: int, w2: int, w3: int, ne: int, n: int,
                   x0: int, x1: int, x2: int, x3: int, with_ctx: bool) -> bool:
    """
    pre: 0 <= kind < B.NAN
    pre: 1 <= w1 <= 2 and 1 <= w2 <= 2 and 1 <= w3 <= 2
    pre: 2 <= ne <= B.EDGES
    pre: 0 <= n <= B.FLOW
    pre: -1 <= x0 <= B.XMAX and -1 <= x1 <= B.XMAX and -1 <= x2 <= B.XMAX and -1 <= x3 <= B.XMAX
    pre: h.in_shard(kind + B.NAN * (ne - 2) + B.NAN * (B.EDGES - 1) * n)
    post: _
    """
    # histogram.__init__ formats its bins into an (unused) error message, a
    # C boundary where symbolic values are realised one by one: coordinates
    # therefore come from a small stated range
    e0 = 0
    n = h.concrete(n, 0, B.FLOW)
    xs = [x0, x1, x2, x3][:n]
    kind = h.concrete(kind, 0, B.NAN - 1)
    ne = h.concrete(ne, 2, B.EDGES)
    wc = True if with_ctx else False
    edges = [e0, e0 + w1, e0 + w1 + w2, e0 + w1 + w2 + w3][:ne]
    ncell = ne - 1
    with cut():
        sib = SplitIntoBins(as_fcs(kind), Variable("x", _id), list(edges))
        cells = [as_fcs(kind) for _ in range(ncell)]
        last_ctx = {}
        for i, x in enumerate(xs):
            sib.fill(mkval(x, i, wc))
            for c in range(ncell):
                if edges[c] <= x and x < edges[c + 1]:
                    cells[c].fill(mkval(x, i, wc))
                    last_ctx = {"i": i} if wc else {}
        got = list(sib.compute())
        per_cell = [list(c.compute()) for c in cells]
    nres = min([len(r) for r in per_cell])
    if len(got) != nres:
        return h.ok(False)
    want_ctx = dict(last_ctx)
    want_ctx["variable"] = {"name": "x"}
    for k in range(nres):
        hist, ctx = got[k]
        if not isinstance(hist, histogram):
            return h.ok(False)
        if list(hist.edges) != edges or list(hist.bins) != [per_cell[c][k] for c in range(ncell)]:
            return h.ok(False)
        if ctx != want_ctx:
            return h.ok(False)
    return h.ok(True)


def _idpair(d):
    return d


def check_split_2d(kind: int, wx1: int, wx2: int, wy1: int, wy2: int, n: int,
                   cx0: int, cy0: int, cx1: int, cy1: int) -> bool:
    """
    pre: B.DIM2 == 1
    pre: 0 <= kind < B.K2
    pre: 1 <= wx1 <= 2 and 1 <= wx2 <= 2 and 1 <= wy1 <= 2 and 1 <= wy2 <= 2
    pre: 0 <= n <= B.N2
    pre: -1 <= cx0 <= 4 and -1 <= cy0 <= 4 and -1 <= cx1 <= 4 and -1 <= cy1 <= 4
    pre: h.in_shard(kind + B.K2 * n)
    post: _
    """
    ex = ey = 0
    n = h.concrete(n, 0, B.N2)
    cx = [cx0, cx1][:n]
    cy = [cy0, cy1][:n]
    kind = h.concrete(kind, 0, B.K2 - 1)
    edges = [[ex, ex + wx1, ex + wx1 + wx2], [ey, ey + wy1, ey + wy1 + wy2]]
    with cut():
        sib = SplitIntoBins(as_fcs2(kind), Variable("xy", _idpair), copy.deepcopy(edges))
        cells = [[as_fcs2(kind) for _ in range(2)] for _ in range(2)]
        for i in range(len(cx)):
            v = ((cx[i], cy[i]), {"i": i})
            sib.fill(v)
            for a in range(2):
                for b in range(2):
                    if (edges[0][a] <= cx[i] and cx[i] < edges[0][a + 1]
                            and edges[1][b] <= cy[i] and cy[i] < edges[1][b + 1]):
                        cells[a][b].fill(copy.deepcopy(v))
        got = list(sib.compute())
        per = [[list(cells[a][b].compute()) for b in range(2)] for a in range(2)]
    nres = min([len(per[a][b]) for a in range(2) for b in range(2)])
    if len(got) != nres:
        return h.ok(False)
    for k in range(nres):
        hist, ctx = got[k]
        if hist.edges != edges:
            return h.ok(False)
        if hist.bins != [[per[a][b][k] for b in range(2)] for a in range(2)]:
            return h.ok(False)
        if ctx.get("variable") != {"name": "xy"}:
            return h.ok(False)
    return h.ok(True)


EDGES1 = [0, 1, 3, 6]
EDGES2 = [[0, 1, 3], [0, 2, 5]]


def check_iterate_bins(dim: int, n1: int, n2: int, v: int, foreign: bool, nested: bool = False) -> bool:
    """
    pre: 1 <= dim <= 2
    pre: 1 <= n1 <= 3 and 1 <= n2 <= 2
    pre: 0 <= v <= 2
    pre: h.in_shard(dim)
    post: _
    """
    dim = h.concrete(dim, 1, 2)
    n1 = h.concrete(n1, 1, 3)
    n2 = h.concrete(n2, 1, 2)
    if dim == 2 and n1 == 3:
        n1 = 2
    inner = []
    # nested: the cells come from an analysis that iterated bins itself - their
    # own context already holds "bin" and "bins" items, which must stay
    # reachable (context.bin.bin, context.bins.bins)
    def own_ctx(c):
        if nested:
            return {"c": c, "bin": {"edges": "inner%d" % c}, "bins": {"q": c}}
        return {"c": c}
    if dim == 1:
        edges = EDGES1[:n1 + 1]
        bins = []
        for i in range(n1):
            hh = histogram([0, 1], [v + i])
            inner.append((hh, ((edges[i], edges[i + 1]),), {"c": i}))
            bins.append((hh, own_ctx(i)))
    else:
        edges = [EDGES2[0][:n1 + 1], EDGES2[1][:n2 + 1]]
        bins = []
        for i in range(n1):
            row = []
            for j in range(n2):
                hh = histogram([0, 1], [v + 10 * i + j])
                inner.append((hh, ((edges[0][i], edges[0][i + 1]), (edges[1][j], edges[1][j + 1])),
                              {"c": 10 * i + j}))
                row.append((hh, own_ctx(10 * i + j)))
            bins.append(row)
    outer = histogram(copy.deepcopy(edges), bins)
    hctx = {"variable": {"name": "x"} if dim == 1 else
            {"name": "x_y", "combine": ({"name": "x"}, {"name": "y"})}, "k": {"z": 1}}
    other = ("not a histogram", {"k": 2})
    flow = [(outer, hctx)] + ([other] if foreign else [])
    snap = copy.deepcopy(hctx)
    got = list(IterateBins().run(iter(flow)))
    if foreign:
        if got[-1] is not other:
            return h.ok(False)
        got = got[:-1]
    if len(got) != len(inner):
        return h.ok(False)
    for g, (hh, cell_edges, own) in zip(got, inner):
        data, ctx = g
        if data is not hh:
            return h.ok(False)
        if ctx.get("c") != own["c"]:
            return h.ok(False)
        if tuple(ctx["bin"]["edges"]) != cell_edges:
            return h.ok(False)
        if nested:
            if ctx["bin"].get("bin") != {"edges": "inner%d" % own["c"]}:
                return h.ok(False)
            if ctx["bins"].get("bins") != {"q": own["c"]}:
                return h.ok(False)
            outer_ctx = dict(ctx["bins"])
            del outer_ctx["bins"]
            if outer_ctx != snap:
                return h.ok(False)
        elif ctx["bins"] != snap or ctx["bins"] is hctx:
            return h.ok(False)
        if not isinstance(ctx["bin"].get("edges_str"), str):
            return h.ok(False)
    return h.ok(hctx == snap)


def _pair(v):
    return (v, {"p": 1})


def check_map_bins(dim: int, n1: int, n2: int, v0: int, v1: int, v2: int, v3: int,
                   keep_ctx: bool, foreign: bool, stateful: bool) -> bool:
    """
    pre: 1 <= dim <= 2
    pre: 1 <= n1 <= 3 and 1 <= n2 <= 2
    pre: 0 <= v0 <= 1 and 0 <= v1 <= 1 and 0 <= v2 <= 1 and 0 <= v3 <= 1
    pre: h.in_shard(dim - 1 + 2 * (n1 - 1) + 6 * (1 if stateful else 0) + 12 * (1 if keep_ctx else 0))
    post: _
    """
    dim = h.concrete(dim, 1, 2)
    n1 = h.concrete(n1, 1, 3)
    n2 = h.concrete(n2, 1, 2)
    vs = [v0, v1, v2, v3]
    if dim == 1:
        edges = EDGES1[:n1 + 1]
        bins = vs[:n1]
        want = [b + 3 for b in bins]
    else:
        n1 = min(n1, 2)
        edges = [EDGES2[0][:n1 + 1], EDGES2[1][:n2 + 1]]
        bins = [[vs[i * 2 + j] for j in range(n2)] for i in range(n1)]
        want = [[b + 3 for b in row] for row in bins]
    hist = histogram(copy.deepcopy(edges), copy.deepcopy(bins))
    ctx = {"k": 1}
    other = (5, {"q": 1})
    flow = [(hist, ctx)] + ([other] if foreign else [])
    if keep_ctx:
        # the sequence yields (data, context): with drop_bins_context the
        # bins hold data only and context.value gets the bin context
        mb = MapBins(lena.core.Sequence(add3, _pair))
    elif stateful:
        # a sequence with state (an accumulator): every cell gets its own copy
        mb = MapBins(lena.core.Sequence(add3, Sum()))
    else:
        mb = MapBins(add3)
    got = list(mb.run(iter(flow)))
    if foreign:
        if got[-1] is not other:
            return h.ok(False)
        got = got[:-1]
    if len(got) != 1:
        return h.ok(False)
    nh, nctx = got[0]
    if nh.edges != edges or nh.bins != want:
        return h.ok(False)
    if hist.bins != bins:
        return h.ok(False)       # the source histogram is not modified
    if keep_ctx:
        return h.ok(nctx == {"k": 1, "value": {"p": 1}})
    return h.ok(nctx == {"k": 1})


CONDITIONS = [
    dict(fn="check_split_1d", shards=(30, 72), budget=(90, 1500),
         smoke=["check_split_1d(0, 1, 2, 1, 3, 2, 0, 2, 0, 0, False)",
                "check_split_1d(3, 1, 2, 1, 3, 2, 0, 1, 2, 0, True)",
                "check_split_1d(4, 2, 2, 1, 3, 2, 1, 0, 3, 0, True)",
                "check_split_1d(2, 2, 2, 1, 2, 2, 1, 4, 3, 0, False)"]),
    dict(fn="check_split_2d", shards=(2, 9), budget=(90, 1200),
         smoke=["check_split_2d(0, 1, 2, 2, 2, 1, -1, 1, 0, 0)", "check_split_2d(0, 1, 2, 2, 2, 1, 0, 0, 0, 0)"]),
    dict(fn="check_iterate_bins", shards=(2, 2), budget=(60, 300),
         smoke=["check_iterate_bins(1, 2, 1, 1, True)", "check_iterate_bins(2, 2, 2, 2, False)"]),
    dict(fn="check_map_bins", shards=(24, 24), budget=(130, 600),
         smoke=["check_map_bins(1, 3, 1, 1, 0, 1, 0, False, True, False)", "check_map_bins(2, 2, 2, 1, 0, 1, 1, True, False, False)",
                "check_map_bins(1, 3, 1, 1, 0, 1, 0, False, False, True)"]),
]
