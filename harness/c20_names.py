"""C20, clause 3 - no code path of the framework fails by referring to an
undefined name: invalid arguments and missing keys are reported with
LenaException subclasses (or ordinary Python exceptions of the argument
itself), never with NameError / UnboundLocalError, nor with AttributeError
on a lena module.

Clauses 1-2 (names in __all__ exist; behaviour with only one subpackage
imported) are finite enumerations over import configurations without any
symbolic dimension: they are not decided by this technique (DESIGN 2/C20).
"""
import builtins
import copy

import lena
import lena.core
import lena.context
import lena.flow
import lena.math
import lena.meta
import lena.output
import lena.structures
import lena.variables
import lena.flow.cache as cache_mod
import lena.output.write as write_mod
import lena.output.latex_to_pdf as l2p_mod
import lena.output.pdf_to_png as p2p_mod

from verif import h
from verif.stubs.fakefs import world, FakeJinjaEnv
from verif.stubs.pydeque import patched_deque
from verif.stubs.untraced import fast_jinja

PROPERTY = "C20"
B = h.bounds(quick=dict(NE=46), thorough=dict(NE=46))
FUNCTIONS = ["constructors and run/__call__/fill/compute/request/reset of the public elements of "
             "lena.core, lena.context, lena.flow, lena.math, lena.meta, lena.output, lena.structures, "
             "lena.variables listed in harness/c20_names.py:ENTRIES"]
BOUNDS = dict(vars(B), meaning="NE entry points, each with two symbolic selectors a, b in 0..5 choosing "
              "argument variants (valid, boundary and deliberately ill-typed values: 5, None, 's', [], "
              "{}, non-callables) and a symbolic integer datum")
STUBS = ["FakeFS world for output/cache elements; jinja2 untraced; PyDeque; builtin print swallowed"]
ASSUMPTIONS = ["exceptions other than NameError / UnboundLocalError / AttributeError-on-a-lena-module are "
               "allowed here (their type is the subject of C01, C05, C08, ...)"]
OUTSIDE = ["clauses 1-2 of the property (import configurations)", "entry points not in the table",
           "lena.input and ROOT/numpy wrappers (optional dependencies absent)"]

BAD = [5, None, "s", [], {}, (1, 2)]


class TwoResults(object):
    def fill(self, v):
        pass

    def compute(self):
        yield 1
        yield (2, {"k": 1})

    def reset(self):
        pass


class NoReset(object):
    def fill(self, v):
        pass

    def compute(self):
        yield 3


def _sel(seq, i):
    return h.choose(seq, i if i < len(seq) else 0)


def e_running_chunk(a, b, x):
    el = lena.flow.RunningChunkBy(_sel([1, 2, 0, 3], a), _sel([tuple, list, 5, None, "s", dict], b))
    return list(el.run([x, 1, 2]))


def e_select_context(a, b, x):
    sc = lena.flow.selectors.SelectContext(_sel(["a", "b.c", ["a"], {"a": "b"}], a), lambda v: v == 1,
                                           raise_on_error=bool(b % 2))
    return sc((x, _sel([{}, {"a": 1}, {"b": {"c": 2}}, {"a": {"b": 1}}], b)))


def e_mean(a, b, x):
    m = lena.math.Mean(_sel([None, lena.math.Sum(), TwoResults(), NoReset(), lena.math.DSum()], a),
                       pass_on_empty=bool(b % 2))
    for i in range(b % 3):
        m.fill(x)
    res = list(m.compute())
    m.reset()
    return res


def e_variance(a, b, x):
    v = lena.math.VarianceMeanCount(_sel([None, lena.math.Sum(), NoReset()], a),
                                    _sel([None, lena.math.Sum(), NoReset()], b), corrected=bool(a % 2))
    v.fill(1)
    v.fill(2)
    res = list(v.compute())
    if hasattr(v, "reset"):
        v.reset()
    return res


def e_vectorize(a, b, x):
    v = lena.math.Vectorize(_sel([lena.math.Sum(), [lena.math.Sum(), lena.math.Mean()], NoReset(), 5,
                                  (lena.math.Sum(),)], a), dim=_sel([2, -1, 1, 0], b))
    v.fill((x, x))
    res = list(v.compute())
    v.reset()
    return res


def e_update_context(a, b, x):
    with fast_jinja():
        el = lena.context.UpdateContext(_sel(["a", "a.b", "", 5, None], a),
                                        _sel([1, "{{x}}", "{{x.y}}_z", "{{", {"k": 1}, "plain"], b))
        return el((x, {"x": {"y": 1}}))


def e_delete_context(a, b, x):
    el = lena.context.DeleteContext(_sel(["a", "a.b", "", ["a"], ("a", "b"), 5], a))
    return el(_sel([(x, {"a": {"b": 1}}), x, (x, {}), (x, {"a": 1})], b))


def e_context_funcs(a, b, x):
    f = _sel([lena.context.contains, lena.context.get_recursively, lena.context.difference,
              lena.context.intersection, lena.context.update_recursively, lena.context.str_to_dict], a)
    args = _sel([({"a": 1}, "a.b"), ({"a": {"b": 1}}, {"a": 1}), (5, "a"), ({}, ""), ("a.b", 5), ({"a": 1}, 5)], b)
    return f(*args)


def e_context_class(a, b, x):
    c = lena.context.Context(_sel([None, {"a": 1}, {"a": {"b": x}}], a))
    if b % 3 == 0:
        return c.a
    if b % 3 == 1:
        return repr(c)
    return c((x, {"k": 1}))


def e_format(a, b, x):
    f = lena.context.format_context(_sel(["{{a}}", "{{a.b}}_{{c}}", "x", "{{a!r}}", "{{a:>5}}", 5], a))
    return f(_sel([{"a": 1}, {"a": {"b": 2}, "c": 3}, {}, {"a": "s"}], b))


def e_selector(a, b, x):
    s = lena.flow.Selector(_sel(["a", int, [int, "a"], (str, lambda v: True), 5, None], a),
                           raise_on_error=bool(b % 2))
    return s(_sel([x, (x, {"a": 1}), "s", (x, {})], b))


def e_not(a, b, x):
    s = lena.flow.Not(_sel(["a", int, ["a", "b"], 5], a), raise_on_error=bool(b % 2))
    return s((x, {"a": 1}))


def e_filter(a, b, x):
    f = lena.flow.Filter(_sel([int, "a", lambda v: v, 5, None], a))
    return list(f.run(iter([x, (x, {"a": 1})])))


def e_group_by(a, b, x):
    g = lena.flow.GroupBy(_sel(["a", ("a", "b.c"), "", 5, ("a", 5), "a..b"], a), _sel(["", ("",), "b", 5, ()], b))
    g.fill((x, {"a": 1, "b": {"c": 2}}))
    g.fill(x)
    res = list(g.compute())
    g.reset()
    return res


def e_group_plots(a, b, x):
    return lena.flow.group_plots(_sel([[(x, {"a": 1}), (x, {"a": 1, "b": 2})], [], [x, x], 5], a))


def e_map_group(a, b, x):
    m = lena.flow.MapGroup(_sel([lambda v: v, 5], a), map_scalars=bool(b % 2))
    return list(m.run(iter([([x, x], {"group": [{"a": 1}, {"a": 2}]}), x, ([x], {"group": [{}, {}]})][:1 + b % 3])))


def e_group_scale(a, b, x):
    hh = lena.structures.histogram([0, 1, 2], [1, 2])
    g = lena.flow.GroupScale(_sel([5, int, "a", None], a), allow_zero_scale=bool(b % 2),
                             allow_unknown_scale=bool(b % 2))
    return g(_sel([[(hh, {"a": 1})], [(5, {})], 5, []], b))


def e_count(a, b, x):
    c = lena.flow.Count(_sel(["count", 5, None], a))
    c.fill((x, {"k": 1}))
    c.reset()
    return list(c.run(iter([x, (x, {})][:b % 3]))), list(c.compute())


def e_slice(a, b, x):
    with patched_deque():
        s = lena.flow.Slice(_sel([2, -1, None, 0, "s", 1.5], a), _sel([None, 3, -1, 0, "s", 2], b))
        return list(s.run(iter([x, 1, 2, 3])))


def e_iterators(a, b, x):
    el = _sel([lena.flow.Chain([1], [x]), lena.flow.CountFrom(x, 2), lena.flow.Chain(5)], a)
    it = iter(el())
    return [next(it) for _ in range(b % 3)]


def e_count_from_bad(a, b, x):
    return lena.flow.CountFrom(_sel(["a", None, x], a), _sel([1, "s", None], b))


def e_run_if(a, b, x):
    r = lena.flow.RunIf(_sel([int, "a", 5, None, lambda v: True], a), _sel([lambda v: v, 5, lena.flow.End()], b))
    return list(r.run(iter([x, (x, {"a": 1})])))


def e_progress_print(a, b, x):
    with patched_deque():
        el = _sel([lena.flow.Progress("ev"), lena.flow.Print(), lena.flow.Progress(format="{index}"),
                   lena.flow.Print(transform=5)], a)
        if hasattr(el, "run"):
            return list(el.run(iter([x][:b % 2])))
        return el(x)


def e_drop_context(a, b, x):
    d = lena.flow.DropContext(_sel([lambda v: v + 1, lambda v: (v, {"n": 1}), 5], a))
    return list(d.run(iter([(x, {"k": 1})][:1 + b % 1])))


def e_zip(a, b, x):
    z = lena.flow.Zip(_sel([[lena.math.Sum(), lena.math.Sum()], [], [lena.math.Sum(), lambda v: v], 5], a),
                      fields=_sel([[], ["x", "y"], ["x"], "x y"], b))
    z.fill((x, {"k": 1}))
    return list(z.compute())


def e_cache(a, b, x):
    with world([cache_mod]) as fs:
        c = lena.flow.Cache(_sel(["c.pkl", "d/{{a}}.pkl", "", 5], a), recompute=bool(b % 2),
                            method=_sel(["cPickle", "pickle", "bad"], b))
        c._dump, c._load = fs.dump, fs.load
        c._set_context({"a": "A"})
        res = list(c.run(iter([x])))
        repr(c)
        c.drop_cache()
        return res


def e_cache_drop_fails(a, b, x):
    """os.remove fails although the cache file exists (e.g. a directory or a
    protected file): documented LenaEnvironmentError."""
    with world([cache_mod]) as fs:
        c = lena.flow.Cache("c.pkl")
        c._dump, c._load = fs.dump, fs.load
        list(c.run(iter([x])))

        def failing_remove(path):
            raise OSError(13, "Permission denied", path)
        fs.os.remove = failing_remove
        if a % 2:
            del fs.files["c.pkl"]
        c.drop_cache()


def e_sequence(a, b, x):
    s = lena.core.Sequence(*_sel([(lambda v: v,), (), (5,), (lena.math.Sum(), None)], a))
    return list(s.run(iter([x])))


def e_source(a, b, x):
    s = lena.core.Source(*_sel([([x],), (), (5,), (lena.flow.CountFrom(), lena.flow.Slice(1)), ([x], 5)], a))
    return list(s())


def e_split(a, b, x):
    s = lena.core.Split(_sel([[lena.math.Sum()], [], 5, [5], [(lambda v: v,), lena.math.Sum()],
                              [lena.core.Source([1])]], a), bufsize=_sel([1, None, 0, "s", 1.5, 2], b))
    res = list(s.run(iter([x, x])))
    repr(s)
    return res


def e_split_methods(a, b, x):
    s = lena.core.Split(_sel([[lena.math.Sum()], [lena.core.Source([1])], [(lambda v: v,)]], a))
    if b % 3 == 0:
        return list(s())
    if b % 3 == 1:
        s.fill(x)
        return list(s.compute())
    s._set_context({"a": 1})
    return s._get_context()


def e_fill_seqs(a, b, x):
    cls = _sel([lena.core.FillComputeSeq, lena.core.FillSeq, lena.core.FillRequestSeq], a)
    kw = {"bufsize": 1} if cls is lena.core.FillRequestSeq else {}
    s = cls(*_sel([(lena.math.Sum(),), (), (5,), (lambda v: v, lena.math.Sum()), (lena.math.Sum(), 5)], b), **kw)
    s.fill(x)
    return s


def e_adapters(a, b, x):
    cls = _sel([lena.core.Call, lena.core.Run, lena.core.FillInto, lena.core.FillCompute,
                lena.core.FillRequest, lena.core.SourceEl], a)
    return cls(_sel([lena.math.Sum(), 5, None, lambda v: v, lena.flow.End(), [1]], b))


def e_fill_request(a, b, x):
    fr = lena.core.FillRequest(lena.math.Sum(), bufsize=_sel([1, 0, "s", 2.5, 2], a),
                               reset=_sel([True, False, None], b), buffer_input=True)
    fr.fill(x)
    return list(fr.request())


class _RunEl(object):
    def run(self, flow):
        for v in flow:
            yield v


def e_fill_request_run(a, b, x):
    """FillRequest over a Run element / an accumulator, both buffering modes,
    with and without yield_on_remainder, driven through run()."""
    el = _sel([_RunEl(), lena.math.Sum(), lena.flow.Count()], a // 2)
    kw = dict(buffer_output=True) if a % 2 else dict(buffer_input=True)
    if a // 2:
        kw["reset"] = True
    fr = lena.core.FillRequest(el, bufsize=_sel([2, 1, 3], b // 2),
                               yield_on_remainder=bool(b % 2), **kw)
    return list(fr.run(iter([x, x + 1, x + 2])))


def e_meta(a, b, x):
    el = _sel([lena.meta.SetContext("a", "{{b}}"), lena.meta.SetContext("a", 1), lena.meta.StoreContext(),
               lena.meta.UpdateContextFromStatic(), lena.meta.SetContext(5, 1)], a)
    s = lena.core.Sequence(el, lena.meta.SetContext("c", "{{a}}"))
    repr(s)
    if b % 2:
        return s._get_context()
    return list(s.run(iter([(x, {})])))


def _one_value():
    yield (1, {})


def e_static_context(a, b, x):
    """Static-context error paths of every kind of sequence: items with
    resolvable and unresolvable formatting keys inside Sequence / Source /
    Split / nested sequences; the stored LenaKeyError may only surface as
    LenaKeyError."""
    m = lena.meta
    items = _sel([lambda: [m.SetContext("d", "{{a}}_x")],
                  lambda: [m.SetContext("a", "A"), m.SetContext("d", "{{a}}_x")],
                  lambda: [m.SetContext("d", "{{a}}_x"), m.SetContext("a", "A")],
                  lambda: [lambda v: v, m.SetContext("d", "{{q.r}}"), m.StoreContext()],
                  lambda: [m.SetContext("a", "A"), m.UpdateContextFromStatic(), m.SetContext("e", "{{nokey}}")],
                  lambda: [m.StoreContext(), m.SetContext("d", 5)]], b)
    c = lena.core
    seq = _sel([lambda: c.Sequence(*items()),
                lambda: c.Source(_one_value, *items()),
                lambda: c.Sequence(c.Split([tuple(items()), (lambda v: v,)])),
                lambda: c.Sequence(c.Split([(lambda v: v,), tuple(items())]), m.StoreContext()),
                lambda: c.Sequence(c.Sequence(*items()), m.SetContext("a", "B")),
                lambda: c.Source(_one_value, c.Sequence(*items()), m.SetContext("a", "B"))], a)()
    repr(seq)
    if x % 2:
        return seq._get_context()
    if isinstance(seq, c.Source):
        return list(seq())
    return list(seq.run(iter([(x, {})])))


def e_variable(a, b, x):
    v = lena.variables.Variable(_sel(["v", 5, None], a), _sel([lambda d: d, 5, None], b), type="t")
    r = v(x)
    return r, v.name, v.missing_attribute


def e_compose_combine(a, b, x):
    v = lena.variables.Variable("v", lambda d: d, type="t")
    cls = _sel([lena.variables.Compose, lena.variables.Combine], a)
    c = cls(*_sel([(v,), (), (v, 5), (v, v)], b))
    return c(x), repr(c)


def e_histogram(a, b, x):
    hh = lena.structures.histogram(_sel([[0, 1, 2], [[0, 1], [0, 1]], [1], [], [2, 1], 5], a),
                                   _sel([None, [1, 2], [1], 5], b))
    hh.fill(x)
    repr(hh)
    hh.scale()
    return hh.get_nevents()


def e_histogram_el(a, b, x):
    el = lena.structures.Histogram(_sel([[0, 1, 2], [1], 5], a), _sel([None, [1, 2], [1]], b),
                                   make_bins=_sel([None, None, None, lambda: [0, 0]], b))
    el.fill((x, {"k": 1}))
    res = list(el.compute())
    el.reset()
    return res


def e_hist_funcs(a, b, x):
    hf = lena.structures
    f = _sel([lambda: hf.get_bin_on_index(_sel([0, 5, (0, 0), "s"], b), [[1, 2], [3, 4]]),
              lambda: hf.get_bin_on_value(_sel([x, (x, x), (x,), "s"], b), [[0, 1], [0, 2]]),
              lambda: hf.get_bin_edges(_sel([0, (0, 0), 5], b), [[0, 1], [0, 2]]),
              lambda: list(hf.iter_cells(hf.histogram([0, 1, 2], [1, 2]),
                                         ranges=_sel([None, ((0, 1),), ((0, 5),), ((-1, 1),)], b))),
              lambda: hf.hist_to_graph(hf.histogram([0, 1], [1]), get_coordinate=_sel(["left", "bad", 5], b),
                                       field_names=_sel([("x", "y"), "x,y", 5], b)),
              lambda: hf.check_edges_increasing(_sel([[0, 1], [], [[0, 1], [1]], 5], b))], a)
    return f()


def e_graph(a, b, x):
    g = lena.structures.graph(_sel([[[0, 1], [2, 3]], [], [[0], [1, 2]], [[0, 1], [2, 3], [1, 1]]], a),
                              field_names=_sel([("x", "y"), "x,y,error_y", ("x", "x"), 5, ("x", "error_z", "y"),
                                                ("x", "y", "error_q")], b), scale=x)
    g.scale(2)
    repr(g)
    return list(g.rows())


def e_structure_elements(a, b, x):
    hh = lena.structures.histogram([0, 1, 2], [1, 2])
    el = _sel([lambda: lena.structures.HistToGraph(make_value=_sel([None, 5, lena.variables.Variable("m", lambda v: v)], b)),
               lambda: lena.structures.MapBins(_sel([lambda v: v, 5, None], b)),
               lambda: lena.structures.IterateBins(create_edges_str=_sel([None, 5], b)),
               lambda: lena.structures.SplitIntoBins(_sel([lena.math.Sum(), 5, lambda v: v], b),
                                                     lena.variables.Variable("x", lambda v: v), [0, 1, 2]),
               lambda: lena.structures.SplitIntoBins(lena.math.Sum(), _sel([5, None, lambda v: v], b), [0, 1, 2])], a)()
    if hasattr(el, "run"):
        return list(el.run(iter([(hh, {"k": 1}), x])))
    el.fill(x)
    return list(el.compute())


def e_output(a, b, x):
    env = FakeJinjaEnv()
    with world([write_mod, l2p_mod, p2p_mod], with_subprocess=True):
        el = _sel([lambda: lena.output.ToCSV(separator=_sel([",", 5], b)),
                   lambda: lena.output.Write(_sel(["out", 5, "{{a}}"], b), _sel(["output", 5, "o"], b)),
                   lambda: lena.output.Write("o", existing_unchanged=True, overwrite=bool(b % 2)),
                   lambda: lena.output.MakeFilename(_sel(["f", 5, None, "{{a}}"], b), prefix=_sel([None, None, "p", None], b)),
                   lambda: lena.output.RenderLaTeX(_sel(["t.tex", 5, "", lambda v: "t"], b), environment=env),
                   lambda: lena.output.LaTeXToPDF(create_command=_sel([None, 5], b), verbose=0),
                   lambda: lena.output.PDFToPNG(verbose=False)], a)()
        flow = [("text", {"output": {"filetype": "csv", "filename": ""}}), (lena.structures.histogram([0, 1], ["s"]), {}),
                ("text", {"output": {"filetype": "csv"}}), ("o/x.tex", {"output": {"filetype": "tex"}}),
                ("o/x.pdf", {"output": {"filetype": "pdf"}})]
        if hasattr(el, "run"):
            return list(el.run(iter(flow[b % 5:])))
        return el(flow[b % 5])


def e_math(a, b, x):
    m = lena.math
    f = _sel([lambda: m.clip(x, _sel([(0, 1), (1, 0), 5, (0,)], b)),
              lambda: m.isclose(_sel([1, [1, 2], [1], "s"], b), _sel([1.0, [1, 2.0], [1, 2], 5], b)),
              lambda: m.mesh(_sel([(0, 1), ((0, 1), (0, 2)), 5, (0,)], b), _sel([2, (2, 2), 0, "s"], b)),
              lambda: m.md_map(lambda v: v, _sel([[1, [2, 3]], 5, []], b)),
              lambda: m.refine_mesh(_sel([[0, 1, 2], [], 5], b), _sel([2, 0, "s"], b)),
              lambda: m.flatten(_sel([[1, [2, [3]]], 5, "s"], b))], a)
    return f()


def e_vector3(a, b, x):
    v = lena.math.vector3(_sel([[1, 2, 3], [1, 2], 5, [x, 0, 0]], a))
    w = lena.math.vector3([0, 0, 1])
    ops = [lambda: v + w, lambda: v.norm(), lambda: v.cross(w), lambda: v.angle(w), lambda: v * 2,
           lambda: (v.theta, v.phi, v.rho)]
    return _sel(ops, b)()


def e_alter(a, b, x):
    return lena.core.alter_sequence(_sel([lena.core.Sequence(), 5, (lambda v: v,), lena.math.Sum()], a)), \
        lena.core.flatten(_sel([lena.core.Sequence(lena.core.Sequence()), 5, ()], b))


ENTRIES = [e_running_chunk, e_select_context, e_mean, e_variance, e_vectorize, e_update_context,
           e_delete_context, e_context_funcs, e_context_class, e_format, e_selector, e_not, e_filter,
           e_group_by, e_group_plots, e_map_group, e_group_scale, e_count, e_slice, e_iterators,
           e_count_from_bad, e_run_if, e_progress_print, e_drop_context, e_zip, e_cache, e_sequence,
           e_cache_drop_fails, e_source, e_split, e_split_methods, e_fill_seqs, e_adapters, e_fill_request, e_fill_request_run, e_meta, e_static_context, e_variable,
           e_compose_combine, e_histogram, e_histogram_el, e_hist_funcs, e_graph, e_structure_elements,
           e_output, e_math, e_vector3, e_alter]


class quiet(object):
    def __enter__(self):
        self.old = builtins.print
        builtins.print = lambda *a, **k: None

    def __exit__(self, *exc):
        builtins.print = self.old
        return False


def check_entry(e: int, a: int, b: int, x: int) -> bool:
    """
    pre: 0 <= e < len(ENTRIES)
    pre: 0 <= a <= 5 and 0 <= b <= 5
    pre: -1 <= x <= 2
    pre: h.in_shard(e)
    post: _
    """
    e = h.concrete(e, 0, len(ENTRIES) - 1)
    a = h.concrete(a, 0, 5)
    b = h.concrete(b, 0, 5)
    # x has four values: concretised, because formatting / repr / float
    # division of a symbolic x inside the entries (histogram, graph) is
    # realised value by value and never exhausts (8 000 paths in 900 s)
    x = h.concrete(x, -1, 2)
    try:
        with quiet():
            ENTRIES[e](a, b, x)
    except (NameError, UnboundLocalError):
        return h.ok(False)
    except AttributeError as err:
        # an AttributeError on a lena module is an unresolved name too
        msg = str(err)
        return h.ok(not ("module 'lena" in msg or 'module "lena' in msg))
    except RecursionError:
        return h.ok(True)
    except Exception:  # noqa: BLE001 - any other exception type is outside this clause
        return h.ok(True)
    return h.ok(True)


CONDITIONS = [
    dict(fn="check_entry", shards=(48, 48), budget=(60, 600),
         smoke=["check_entry(2, 0, 1, 1)", "check_entry(10, 0, 0, 1)", "check_entry(41, 1, 0, 1)"]),
]
