"""C16 - FillRequest processes the flow in consecutive blocks, however driven."""
from typing import List

import lena.core
from lena.core import FillRequest, Split
from lena.math import Sum

from verif import h
from verif.stubs.bounded_list import BoundedList, BufferBudget

PROPERTY = "C16"
B = h.bounds(
    quick=dict(BUF=3, FLOW=5, SB=4),
    thorough=dict(BUF=5, FLOW=7, SB=6),
)
BOUNDS = dict(vars(B), meaning="FillRequest bufsize 1..BUF, flows of <= FLOW symbolic ints, "
              "request() schedule = one symbolic bit per fill, Split bufsize 1..SB; wrapped "
              "element kinds: run element, fill/compute (user element and lena Sum), fill/request")
FUNCTIONS = ["lena.core.adapters.FillRequest.__init__", "FillRequest.fill", "FillRequest.request",
             "FillRequest._run_fill_compute", "FillRequest._run_run", "FillRequest.reset",
             "lena.core.fill_request_seq.FillRequestSeq.__init__/request",
             "lena.core.split.Split.run (fill_request branch)", "split._get_seq_with_type"]
STUBS = ["FillRequest._buffer_in/_buffer_out -> BoundedList (operation budget flow+bufsize+4): "
         "a call that would never return raises BufferBudget instead"]
ASSUMPTIONS = ["wrapped elements are the harness vocabulary (RunEl, FCEl, FREl log what they "
               "receive) and lena.math.Sum"]
OUTSIDE = ["the 'at most one block buffered' clause under fill() without request(): "
           "FillRequest.fill documents that values past a complete block are stored until "
           "requested; only finiteness and exact accounting are claimed there",
           "bufsize > BUF, flows longer than FLOW"]


class RunEl(object):
    """Stateless run element: yields its whole input as one tuple."""

    def run(self, flow):
        yield tuple(flow)


class FCEl(object):
    def __init__(self):
        self.vals = []
        self.log = []

    def fill(self, v):
        self.vals.append(v)
        self.log.append(v)

    def compute(self):
        yield tuple(self.vals)

    def reset(self):
        self.vals = []


class FREl(object):
    def __init__(self):
        self.vals = []
        self.log = []

    def fill(self, v):
        self.vals.append(v)
        self.log.append(v)

    def request(self):
        yield tuple(self.vals)

    def reset(self):
        self.vals = []


def expected_run(kind, bufsize, reset, yor, flow):
    """Reference from the FillRequest.run docstring: per consecutive block of
    bufsize values what the element yields for it."""
    out = []
    state = []
    total = 0
    n = len(flow)
    i = 0
    while i < n:
        block = flow[i:i + bufsize]
        i += bufsize
        if len(block) < bufsize and not yor:
            break
        if kind == 0:
            out.append(tuple(block))
        elif kind == 3:
            for v in block:
                total += v
            out.append(total)
            if reset:
                total = 0
        else:
            state = state + list(block)
            out.append(tuple(state))
            if reset:
                state = []
    return out


def make_el(kind):
    if kind == 0:
        return RunEl()
    if kind == 1:
        return FCEl()
    if kind == 2:
        return FREl()
    return Sum()


def check_run(kind: int, bufsize: int, bi: bool, bo: bool, reset: bool, yor: bool,
              flow: List[int]) -> bool:
    """
    pre: 0 <= kind <= 3
    pre: 1 <= bufsize <= B.BUF
    pre: yor or (bi != bo)
    pre: len(flow) <= B.FLOW
    pre: h.in_shard(kind + 4 * (bufsize - 1))
    post: _
    """
    el = make_el(kind)
    rs = True if reset else False
    if kind == 0:
        rs = False   # a run element has no reset method
    fr = FillRequest(el, bufsize=bufsize, reset=rs,
                     buffer_input=True if bi else False,
                     buffer_output=True if bo else False,
                     yield_on_remainder=True if yor else False)
    got = list(fr.run(iter(flow)))
    want = expected_run(kind, bufsize, rs, True if yor else False, list(flow))
    return h.ok(got == want)


def _carved(bi, bufsize, n, sched):
    """Known findings (see known_findings.json): regions of the schedule
    space removed from the main condition while the witness still fails."""
    if bi and h.kf("C16-request-inside-block"):
        # a request() strictly inside a block, followed by another call
        # (the harness always ends with one more request())
        for t in range(1, n + 1):
            if sched[t - 1] and t % bufsize != 0:
                return True
    if (not bi) and h.kf("C16-buffer-output-fill-past-block"):
        # a fill() arriving while a complete block still awaits request()
        for t in range(1, n):
            if t % bufsize == 0 and not sched[t - 1]:
                return True
    return False


def check_fill_request(kind: int, bufsize: int, bi: bool, reset: bool, flow: List[int],
                       sched: List[bool]) -> bool:
    """
    pre: 1 <= kind <= 3
    pre: 1 <= bufsize <= B.BUF
    pre: len(flow) <= B.FLOW
    pre: len(sched) == len(flow)
    pre: h.in_shard(kind - 1 + 3 * (bufsize - 1))
    post: _
    """
    n = len(flow)
    sc = [True if x else False for x in sched]
    binp = True if bi else False
    if _carved(binp, bufsize, n, sc):
        return True
    el = make_el(kind)
    rs = True if reset else False
    fr = FillRequest(el, bufsize=bufsize, reset=rs, buffer_input=binp,
                     buffer_output=not binp)
    budget = n + bufsize + 4
    if binp:
        fr._buffer_in = BoundedList(budget)
    else:
        fr._buffer_out = BoundedList(budget)
    got = []
    try:
        for i in range(n):
            fr.fill(flow[i])
            if sc[i]:
                got += list(fr.request())
        got += list(fr.request())
    except BufferBudget:
        return h.ok(False)
    want = expected_run(kind, bufsize, rs, False, list(flow))
    if got != want:
        return h.ok(False)
    if kind != 3:
        # every value reached the element exactly once, in order
        return h.ok(el.log == list(flow))
    return h.ok(True)


def check_request_at_end(kind: int, bufsize: int, reset: bool, mid: int, flow: List[int]) -> bool:
    """
    pre: 1 <= kind <= 3
    pre: 1 <= bufsize <= B.BUF
    pre: len(flow) <= 3 * bufsize + 1
    pre: 0 <= mid <= 3
    pre: h.in_shard(kind - 1 + 3 * (bufsize - 1))
    post: _
    """
    # the schedules with a single request() after many fills (several complete
    # blocks buffered at once) - longer flows than check_fill_request affords;
    # mid > 0: one more request() after mid complete blocks (a block boundary,
    # outside the known findings)
    n = len(flow)
    rs = True if reset else False
    el = make_el(kind)
    fr = FillRequest(el, bufsize=bufsize, reset=rs, buffer_input=True)
    fr._buffer_in = BoundedList(n + bufsize + 4)
    got = []
    try:
        for i in range(n):
            fr.fill(flow[i])
            if mid > 0 and i + 1 == mid * bufsize:
                got += list(fr.request())
        got += list(fr.request())
    except BufferBudget:
        return h.ok(False)
    if got != expected_run(kind, bufsize, rs, False, list(flow)):
        return h.ok(False)
    if kind != 3:
        return h.ok(el.log == list(flow))
    return h.ok(True)


def check_two_instances(kind: int, bufsize: int, reset: bool, flow: List[int],
                        sched: List[bool]) -> bool:
    """
    pre: 1 <= kind <= 3
    pre: 1 <= bufsize <= B.BUF
    pre: len(flow) <= B.FLOW
    pre: len(sched) == len(flow)
    pre: h.in_shard(kind - 1 + 3 * (bufsize - 1))
    post: _
    """
    # two FillRequest elements alive at the same time and filled alternately
    # (as two fill/request branches of one Split are): each accounts for its
    # own values only.  Requests of the first one fall on block boundaries
    # (outside the known findings), the second one is requested at the end.
    n = len(flow)
    rs = True if reset else False
    ea, eb = make_el(kind), make_el(kind)
    fa = FillRequest(ea, bufsize=bufsize, reset=rs, buffer_input=True)
    fb = FillRequest(eb, bufsize=bufsize, reset=rs, buffer_input=True)
    other = [v + 1000 for v in flow]
    ga, gb = [], []
    for i in range(n):
        fa.fill(flow[i])
        fb.fill(other[i])
        if sched[i] and (i + 1) % bufsize == 0:
            ga += list(fa.request())
    ga += list(fa.request())
    gb += list(fb.request())
    if ga != expected_run(kind, bufsize, rs, False, list(flow)):
        return h.ok(False)
    if gb != expected_run(kind, bufsize, rs, False, other):
        return h.ok(False)
    if kind != 3:
        return h.ok(ea.log == list(flow) and eb.log == other)
    return h.ok(True)


def check_split_around(kind: int, bufsize: int, sb: int, reset: bool, seqform: bool,
                       flow: List[int]) -> bool:
    """
    pre: 1 <= kind <= 3
    pre: 1 <= bufsize <= B.BUF
    pre: 1 <= sb <= B.SB
    pre: len(flow) <= B.FLOW
    pre: h.in_shard(kind - 1 + 3 * (bufsize - 1))
    post: _
    """
    n = len(flow)
    rs = True if reset else False
    el = make_el(kind)
    if seqform and kind == 2:
        # a tuple with a fill/request element: Split builds a FillRequestSeq
        # whose fill/request go straight to the element, so the element is
        # requested after every Split block (documented in Split.run), also
        # once for an empty flow
        s = Split([(el,)], bufsize=sb)
        got = list(s.run(iter(flow)))
        want, state = [], []
        for i in range(0, n, sb):
            state = state + list(flow[i:i + sb])
            want.append(tuple(state))
        if n == 0:
            want = [()]
        return h.ok(got == want and el.log == list(flow))
    sched = [(t + 1) % sb == 0 for t in range(n)]
    if _carved(True, bufsize, n, sched):
        return True
    fr = FillRequest(el, bufsize=bufsize, reset=rs, buffer_input=True)
    s = Split([fr], bufsize=sb)
    got = list(s.run(iter(flow)))
    return h.ok(got == expected_run(kind, bufsize, rs, False, list(flow)))


def check_init_contract(kind: int, bufsize: int, bi: bool, bo: bool, reset_code: int,
                        yor: bool) -> bool:
    """
    pre: 0 <= kind <= 3
    pre: -1 <= bufsize <= 2
    pre: 0 <= reset_code <= 2
    post: _
    """
    # construction either succeeds or raises LenaTypeError / LenaValueError
    reset = [None, False, True][reset_code]
    el = make_el(kind)
    try:
        fr = FillRequest(el, bufsize=bufsize, reset=reset,
                         buffer_input=True if bi else False,
                         buffer_output=True if bo else False,
                         yield_on_remainder=True if yor else False)
    except (lena.core.LenaTypeError, lena.core.LenaValueError):
        bad = (bufsize < 1 or (not yor and bi == bo) or (kind != 0 and reset is None)
               or (kind == 0 and reset is True))
        return h.ok(bad)
    return h.ok(bufsize >= 1 and fr.bufsize == bufsize)


CONDITIONS = [
    dict(fn="check_run", shards=(12, 20), budget=(70, 900),
         smoke=["check_run(1, 2, True, False, True, False, [1, 2, 3, 4, 5])",
                "check_run(0, 2, False, True, False, True, [1, 2, 3])",
                "check_run(3, 1, False, True, True, False, [4, 5])"]),
    dict(fn="check_fill_request", shards=(9, 15), budget=(80, 1200),
         smoke=["check_fill_request(1, 2, True, True, [1, 2, 3, 4], [False, True, False, True])",
                "check_fill_request(2, 1, False, True, [1, 2], [True, True])"]),
    dict(fn="check_request_at_end", shards=(9, 15), budget=(80, 900),
         smoke=["check_request_at_end(1, 2, True, 0, [1, 2, 3, 4, 5, 6])", "check_request_at_end(3, 3, False, 1, [1, 2, 3, 4, 5, 6, 7])",
                "check_request_at_end(2, 1, True, 2, [1, 2, 3])"]),
    dict(fn="check_two_instances", shards=(9, 15), budget=(80, 900),
         smoke=["check_two_instances(1, 2, True, [1, 2, 3, 4], [False, True, False, True])",
                "check_two_instances(3, 1, False, [1, 2], [True, False])", "check_two_instances(2, 3, True, [1, 2, 3, 4], [False, False, True, False])"]),
    dict(fn="check_split_around", shards=(9, 15), budget=(70, 900),
         smoke=["check_split_around(1, 2, 2, True, False, [1, 2, 3, 4, 5])",
                "check_split_around(2, 1, 2, False, True, [1, 2, 3, 4])"]),
    dict(fn="check_init_contract", budget=(60, 200),
         smoke=["check_init_contract(1, 2, True, False, 2, False)",
                "check_init_contract(1, 0, True, False, 2, False)"]),
]
