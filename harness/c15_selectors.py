"""C15 - selectors evaluate compositionally; SelectContext; Filter; GroupBy
partitions by the selected context."""
import copy
from typing import List

import lena.core
import lena.flow
from lena.core import LenaValueError
from lena.flow import Selector, Not, Filter, GroupBy, get_data_context
from lena.flow.selectors import SelectContext, And, Or

from verif import h

PROPERTY = "C15"
B = h.bounds(
    quick=dict(SHAPES=6, NCTX=4, GV=2, NKEYS=4, ASH=6, DSH=2),
    thorough=dict(SHAPES=12, NCTX=6, GV=3, NKEYS=5, ASH=8, DSH=3),
)
LEAVES = ["'a'", "'a.b'", "int", "str", "total predicate", "raising predicate",
          "SelectContext('a', predicate) - a selector object used as a leaf"]
SHAPES = ["leaf", "[l0, l1]", "(l0, l1)", "Not(l0)", "[(l0, l1), l2]", "([l0, l1], Not(l2))",
          "Not([l0, l1])", "Not((l0, l1))", "[Not(l0, roe), l1]", "(Selector(l0, roe=False), l1, [l2])",
          "([l0, l1],)", "[(l0, l1)]"]
BOUNDS = dict(vars(B), leaves=LEAVES, shapes=SHAPES, meaning="specifications = first SHAPES entries "
              "of `shapes` (quick: shapes 0-3 and the last two) over all leaf triples; both raise_on_error settings (outer and, where a "
              "nested selector object has its own, inner); values: symbolic int or a string, with "
              "context from NCTX alternatives; GroupBy: every subset pair (group_by, merge) of "
              "{'', a, a.b, a.b.c, d} and GV values with contexts over 8x3 shapes")
FUNCTIONS = ["lena.flow.selectors.Selector.__init__/__call__", "And", "Or", "Not", "SelectContext",
             "lena.flow.filter.Filter.run/fill_into", "lena.flow.group_by.GroupBy.__init__/fill/compute",
             "lena.context.include_exclude_tree.make_include_exclude_tree", "IncludeExcludeTree.get",
             "lena.context.functions.contains", "to_string"]
STUBS = []
ASSUMPTIONS = ["predicates return concrete booleans (rule 4)", "contexts are concrete on every path "
               "(json.dumps in to_string is a C boundary)"]
OUTSIDE = ["specifications deeper than the listed shapes", "keys beyond the alphabet",
           "key sets listing the same key in group_by and in merge (contradictory)"]


class Boom(Exception):
    pass


def total(v):
    d = get_data_context(v)[0]
    if isinstance(d, int):
        return True if d > 0 else False
    return False


def raising(v):
    d = get_data_context(v)[0]
    if isinstance(d, int):
        if d == 0:
            raise Boom()
        return True if d > 1 else False
    raise Boom()


def _one(v):
    return True if (v == 1 or v is None) else False


LEAF = ["a", "a.b", int, str, total, raising, SelectContext("a", _one)]
CTX = [None, {"a": 1}, {"a": {"b": 2}}, {"a": None}, {"a": "b"}, {"b": 1}]


def ref_leaf(i, value):
    data, ctx = get_data_context(value)
    if i == 0:
        return "a" in ctx
    if i == 1:
        if "a" not in ctx:
            return False
        sub = ctx["a"]
        if isinstance(sub, dict):
            return "b" in sub
        return str(sub) == "b"
    if i == 2:
        return isinstance(data, int)
    if i == 3:
        return isinstance(data, str)
    if i == 4:
        return total(value)
    if i == 6:
        return "a" in ctx and _one(ctx["a"])
    return raising(value)


def guarded(fn, roe):
    """Selector.__call__: an exception counts as not selected unless
    raise_on_error."""
    try:
        return fn()
    except Boom:
        if roe:
            raise
        return False


def build(shape, l0, l1, l2, roe, roe2):
    """(real selector, reference evaluator) for the specification."""
    A, Bq, C = LEAF[l0], LEAF[l1], LEAF[l2]
    ra = lambda v: guarded(lambda: ref_leaf(l0, v), roe)
    rb = lambda v: guarded(lambda: ref_leaf(l1, v), roe)
    rc = lambda v: guarded(lambda: ref_leaf(l2, v), roe)
    if shape == 0:
        return Selector(A, roe), ra
    if shape == 1:
        return Selector([A, Bq], roe), lambda v: guarded(lambda: ra(v) or rb(v), roe)
    if shape == 2:
        return Selector((A, Bq), roe), lambda v: guarded(lambda: ra(v) and rb(v), roe)
    if shape == 3:
        return Not(A, roe), lambda v: not ra(v)
    if shape == 10:
        # a list nested in a tuple and a tuple nested in a list (two leaves)
        return (Selector(([A, Bq],), roe),
                lambda v: guarded(lambda: guarded(lambda: ra(v) or rb(v), roe), roe))
    if shape == 11:
        return (Selector([(A, Bq)], roe),
                lambda v: guarded(lambda: guarded(lambda: ra(v) and rb(v), roe), roe))
    if shape == 4:
        return (Selector([(A, Bq), C], roe),
                lambda v: guarded(lambda: guarded(lambda: ra(v) and rb(v), roe) or rc(v), roe))
    if shape == 5:
        # an explicit Not object keeps its own raise_on_error
        nc = lambda v: not guarded(lambda: ref_leaf(l2, v), roe2)
        return (Selector(([A, Bq], Not(C, roe2)), roe),
                lambda v: guarded(lambda: guarded(lambda: ra(v) or rb(v), roe) and nc(v), roe))
    if shape == 6:
        return Not([A, Bq], roe), lambda v: not guarded(lambda: ra(v) or rb(v), roe)
    if shape == 7:
        return Not((A, Bq), roe), lambda v: not guarded(lambda: ra(v) and rb(v), roe)
    if shape == 8:
        na = lambda v: not guarded(lambda: ref_leaf(l0, v), roe2)
        return Selector([Not(A, roe2), Bq], roe), lambda v: guarded(lambda: na(v) or rb(v), roe)
    sa = lambda v: guarded(lambda: ref_leaf(l0, v), False)
    return (Selector((Selector(A, False), Bq, [C]), roe),
            lambda v: guarded(lambda: sa(v) and rb(v) and guarded(lambda: rc(v), roe), roe))


def mkvalue(is_str, x, c):
    data = "s" if is_str else x
    ctx = h.choose(CTX, c)
    if ctx is None:
        return data
    return (data, copy.deepcopy(ctx))


def check_selector(shape: int, l0: int, l1: int, l2: int, roe: bool, roe2: bool,
                   is_str: bool, x: int, c: int) -> bool:
    """
    pre: 0 <= shape < B.SHAPES
    pre: 0 <= l0 <= 6 and 0 <= l1 <= 6 and 0 <= l2 <= 6
    pre: 0 <= c < B.NCTX
    pre: h.in_shard(l0 + 7 * shape)
    post: _
    """
    shape = h.concrete(shape, 0, B.SHAPES - 1)
    # quick tier: the two-leaf nested shapes take the place of shapes 4, 5
    if B.SHAPES == 6 and shape >= 4:
        shape = shape + 6
    # only the leaves / flags the shape uses are read (no useless forks)
    l0 = h.concrete(l0, 0, 6)
    l1 = h.concrete(l1, 0, 6) if shape not in (0, 3) else 0
    l2 = h.concrete(l2, 0, 6) if shape in (4, 5, 9) else 0
    r1 = True if roe else False
    r2 = (True if roe2 else False) if shape in (5, 8) else True
    sel, ref = build(shape, l0, l1, l2, r1, r2)
    value = mkvalue(True if is_str else False, x, c)
    try:
        want = ("ok", True if ref(value) else False)
    except Boom:
        want = ("raises",)
    try:
        got = ("ok", True if sel(value) else False)
    except Boom:
        got = ("raises",)
    return h.ok(got == want)


def check_filter(shape: int, l0: int, l1: int, roe: bool, xs: List[int], c0: int, c1: int,
                 c2: int) -> bool:
    """
    pre: 0 <= shape <= 3 and shape != 2
    pre: (l0 == 0 or l0 == 4) and (l1 == 0 or l1 == 4)
    pre: len(xs) <= 2
    pre: 0 <= c0 <= 2 and c1 == (c0 + 1) % 3 and c2 == 0
    pre: h.in_shard(shape + (1 if l0 == 4 else 0))
    post: _
    """
    shape = h.concrete(shape, 0, 3)
    l0, l1 = h.concrete(l0, 0, 4), h.concrete(l1, 0, 4)
    r1 = True if roe else False
    sel, ref = build(shape, l0, l1, 0, r1, True)
    flow = [mkvalue(False, x, c) for x, c in zip(xs, [c0, c1, c2])]
    want = [v for v in flow if ref(v)]
    got = list(Filter(sel).run(iter(flow)))

    class Sink(object):
        def __init__(self):
            self.got = []

        def fill(self, v):
            self.got.append(v)
    sink = Sink()
    f = Filter(sel)
    for v in flow:
        f.fill_into(sink, v)
    return h.ok(got == want and sink.got == want and all([a is b for a, b in zip(got, want)]))


def _boom(v):
    raise Boom()


def check_select_context(key: int, pred: int, roe: bool, c: int, x: int) -> bool:
    """
    pre: 0 <= key <= 3
    pre: 0 <= pred <= 2
    pre: 0 <= c < B.NCTX
    post: _
    """
    k = h.choose(["a", "a.b", ["a", "b"], "c"], key)
    # the predicate is any callable: a function, a raising function, a class
    # used as a callable (bool(subcontext))
    p = _one if pred == 0 else (_boom if pred == 1 else bool)
    r = True if roe else False
    sel = SelectContext(k, p, raise_on_error=r)
    value = mkvalue(False, x, c)
    ctx = get_data_context(value)[1]
    keys = k.split(".") if isinstance(k, str) else k
    cur = ctx
    present = True
    for kk in keys:
        if not isinstance(cur, dict) or kk not in cur:
            present = False
            break
        cur = cur[kk]
    try:
        got = ("ok", True if sel(value) else False)
    except Boom:
        got = ("raises",)
    # the same selector object applied again gives the same answer, and the
    # key it was built from is unchanged
    try:
        again = ("ok", True if sel(mkvalue(False, x, c)) else False)
    except Boom:
        again = ("raises",)
    if again != got or k != h.choose(["a", "a.b", ["a", "b"], "c"], key):
        return h.ok(False)
    if not present:
        return h.ok(got == ("ok", False))
    if pred == 1:
        return h.ok(got == (("raises",) if r else ("ok", False)))
    if pred == 2:
        return h.ok(got == ("ok", True if cur else False))
    return h.ok(got == ("ok", cur == 1 or cur is None))


# --------------------------------------------------------------------- GroupBy
KEYS = ["", "a", "a.b", "d", "a.b.c"]
ASHAPES = [None, 1, {"b": 1}, {"b": {"c": 1}}, {"b": 1, "x": 1}, 2, {"b": 2}, {"b": {"c": 2}}]
DSHAPES = [None, 1, 2]


def gctx(a, d):
    ctx = {}
    av = h.choose(ASHAPES, a)
    dv = h.choose(DSHAPES, d)
    if av is not None:
        ctx["a"] = copy.deepcopy(av)
    if dv is not None:
        ctx["d"] = dv
    return ctx


def leaf_paths(ctx, prefix=(), nodes=False):
    out = []
    for k, v in ctx.items():
        if isinstance(v, dict) and v:
            if nodes:
                out.append((prefix + (k,), "<dict>"))
            out += leaf_paths(v, prefix + (k,), nodes)
        else:
            out.append((prefix + (k,), v))
    return out


def projection(ctx, group_by, merge, nodes=False):
    """Items of ctx on the key paths whose longest listed prefix is a
    group_by entry."""
    listed = [(tuple(k.split(".")) if k else (), True) for k in group_by]
    listed += [(tuple(k.split(".")) if k else (), False) for k in merge]
    out = []
    for path, v in leaf_paths(ctx, (), nodes):
        best = None
        for lp, is_group in listed:
            if path[:len(lp)] == lp:
                if best is None or len(lp) > len(best[0]):
                    best = (lp, is_group)
        if best is not None and best[1]:
            out.append((path, v))
    return sorted(out, key=repr)


def check_group_by(gmask: int, mmask: int, n: int, a0: int, d0: int, a1: int, d1: int,
                   a2: int, d2: int, bare: bool) -> bool:
    """
    pre: 0 <= gmask < 2 ** B.NKEYS and 0 <= mmask < 2 ** B.NKEYS
    pre: 2 <= n <= B.GV
    pre: 0 <= a0 < B.ASH and 0 <= a1 < B.ASH and 0 <= a2 < B.ASH
    pre: 0 <= d0 < B.DSH and 0 <= d1 < B.DSH and 0 <= d2 < B.DSH
    pre: h.in_shard(gmask + 2 ** B.NKEYS * (1 if bare else 0))
    post: _
    """
    gmask = h.concrete(gmask, 0, 2 ** B.NKEYS - 1)
    mmask = h.concrete(mmask, 0, 2 ** B.NKEYS - 1)
    group_by = tuple([KEYS[i] for i in range(5) if gmask & (1 << i)])
    merge = tuple([KEYS[i] for i in range(5) if mmask & (1 << i)])
    ref_group_by, ref_merge = group_by, merge
    if not group_by and not merge:
        return True
    if gmask & mmask:
        # a key listed in both sets is contradictory ("whose longest listed
        # prefix is a group_by entry" has no answer): outside the claim
        return True
    if bare:
        # the same key sets spelled as bare strings / other empty containers
        if len(group_by) == 1:
            group_by = group_by[0]
        if len(merge) == 1:
            merge = merge[0]
        elif len(merge) == 0 and group_by != "":
            merge = []
    try:
        gb = GroupBy(group_by, merge)
    except LenaValueError:
        # the statement quantifies over the key sets that
        # make_include_exclude_tree accepts
        return h.ok(True)
    n = h.concrete(n, 2, B.GV)
    vals = [(i, gctx(a, d)) for i, (a, d) in enumerate([(a0, d0), (a1, d1), (a2, d2)][:n])]
    for v in vals:
        gb.fill(v)
    groups = list(gb.compute())
    # every value in exactly one group, arrival order inside groups
    seen = []
    for g in groups:
        idx = [v[0] for v in g]
        if idx != sorted(idx):
            return h.ok(False)
        seen += idx
    if sorted(seen) != list(range(n)):
        return h.ok(False)
    where = {}
    for gi, g in enumerate(groups):
        for v in g:
            where[v[0]] = gi
    for i in range(n):
        for j in range(i + 1, n):
            # "key path" read as leaves only, or as every node: the
            # implementation must agree with at least one reading
            s1 = projection(vals[i][1], ref_group_by, ref_merge, False) == projection(vals[j][1], ref_group_by, ref_merge, False)
            s2 = projection(vals[i][1], ref_group_by, ref_merge, True) == projection(vals[j][1], ref_group_by, ref_merge, True)
            impl = where[i] == where[j]
            if impl != s1 and impl != s2:
                return h.ok(False)
    return h.ok(True)


CONDITIONS = [
    dict(fn="check_selector", shards=(42, 84), budget=(90, 1200),
         smoke=["check_selector(1, 0, 5, 0, False, True, False, 0, 1)",
                "check_selector(3, 5, 0, 0, False, True, True, 0, 0)",
                "check_selector(2, 2, 4, 0, True, True, False, 3, 2)"]),
    dict(fn="check_filter", shards=(5, 5), budget=(80, 900),
         smoke=["check_filter(1, 0, 4, True, [1, -2], 1, 0, 0)"]),
    dict(fn="check_select_context", budget=(60, 300),
         smoke=["check_select_context(0, 0, True, 1, 5)", "check_select_context(1, 1, False, 2, 5)",
                "check_select_context(0, 2, True, 1, 5)", "check_select_context(0, 2, True, 3, 5)"]),
    dict(fn="check_group_by", shards=(32, 64), budget=(160, 1500),
         smoke=["check_group_by(2, 1, 2, 1, 0, 5, 0, 0, 0, False)", "check_group_by(1, 4, 2, 2, 0, 1, 0, 0, 0, False)",
                "check_group_by(4, 1, 2, 2, 1, 2, 0, 0, 0, False)", "check_group_by(1, 4, 2, 1, 1, 5, 1, 0, 0, False)", "check_group_by(1, 0, 2, 1, 1, 5, 1, 0, 0, True)"]),
]
