"""C18 - Cache replays exactly the stored flow and never serves a truncated one."""
from typing import List

import lena.core
import lena.flow
import lena.flow.cache as cache_mod
from lena.core import Sequence, Source
from lena.flow import Cache

from verif import h
from verif.stubs.fakefs import world

PROPERTY = "C18"
B = h.bounds(
    quick=dict(FLOW=4, HIST=3),
    thorough=dict(FLOW=5, HIST=4),
)
BOUNDS = dict(vars(B), meaning="flows of <= FLOW symbolic ints (bare or with context), crash "
              "point k in 0..len(flow) (consumer stops / downstream raises / upstream raises), "
              "histories of <= HIST operations over {complete run, interrupted run, run with "
              "recompute=True, interrupted recomputing run, drop_cache}, the complete runs of a "
              "history taken plainly, through Cache.alter_sequence or through "
              "lena.core.alter_sequence (symbolic), one or two Cache elements, Sequence and "
              "alter_sequence (Source) forms")
FUNCTIONS = ["lena.flow.cache.Cache.__init__", "Cache.run", "Cache.cache_exists", "Cache.drop_cache",
             "Cache._dump_flow_and_yield", "Cache._load_flow", "Cache.alter_sequence",
             "lena.core.meta.alter_sequence", "lena.core.meta.flatten", "Sequence.run",
             "Source.__call__", "adapters.SourceEl"]
STUBS = ["open/os as seen from lena.flow.cache -> FakeFS/FakeOS (in-memory files, rename/replace "
         "modelled)", "Cache._dump/_load -> FakeFS.dump/load (a record list per file; values "
         "deep-copied, EOFError at end): values are assumed picklable and pickling faithful"]
ASSUMPTIONS = ["the file system performs open/write/rename/remove atomically and in order"]
OUTSIDE = ["real pickle fidelity", "OS-level crashes between write and rename",
           "concurrent processes", "Cache inside Split (documented as wrong)"]


class Boom(Exception):
    pass


class Up(object):
    """Upstream element: counts what it pulls; optionally raises at index k."""

    def __init__(self, raise_at=None, add=0):
        self.pulls = 0
        self.runs = 0
        self.raise_at = raise_at
        self.add = add

    def run(self, flow):
        self.runs += 1
        for v in flow:
            if self.raise_at is not None and self.pulls == self.raise_at:
                raise Boom()
            self.pulls += 1
            if self.add:
                yield _plus(v, self.add)
            else:
                yield v


def _plus(v, add):
    if isinstance(v, tuple):
        return (v[0] + add, v[1])
    return v + add


class Down(object):
    def __init__(self, raise_at=None):
        self.seen = 0
        self.raise_at = raise_at

    def run(self, flow):
        for v in flow:
            if self.raise_at is not None and self.seen == self.raise_at:
                raise Boom()
            self.seen += 1
            yield v


def mkflow(xs, with_ctx):
    if with_ctx:
        return [(x, {"i": i}) for i, x in enumerate(xs)]
    return list(xs)


def new_cache(fs, name="dir/c.pkl", recompute=False):
    c = Cache(name, recompute=recompute)
    c._dump = fs.dump
    c._load = fs.load
    return c


def take(gen, k):
    """Consumer that stops after k values (closes the generator)."""
    out = []
    it = iter(gen)
    for _ in range(k):
        try:
            out.append(next(it))
        except StopIteration:
            break
    if hasattr(it, "close"):
        it.close()
    return out


def run_form(seq, hoist, feed):
    """Run *seq* on the iterator *feed*: plainly (hoist 0), after
    Cache.alter_sequence (1) or after lena.core.alter_sequence (2).
    Returns (results, was_source)."""
    if hoist == 1:
        alt = Cache.alter_sequence(seq)
    elif hoist == 2:
        alt = lena.core.alter_sequence(seq)
    else:
        alt = seq
    if isinstance(alt, Source):
        return list(alt()), True
    return list(alt.run(feed)), False


def check_replay(xs: List[int], with_ctx: bool, hoist: int, reruns: int) -> bool:
    """
    pre: len(xs) <= B.FLOW
    pre: 0 <= hoist <= 2
    pre: 1 <= reruns <= 2
    post: _
    """
    flow = mkflow(xs, with_ctx)
    with world([cache_mod]) as fs:
        up = Up()
        seq = Sequence(up, new_cache(fs), Down())
        first = list(seq.run(iter(mkflow(xs, with_ctx))))
        if first != flow or up.pulls != len(flow):
            return h.ok(False)
        for _ in range(reruns):
            up2 = Up()
            seq2 = Sequence(up2, new_cache(fs), Down())
            feeder = Up()
            got, was_source = run_form(seq2, hoist, feeder.run(iter(mkflow(xs, with_ctx))))
            # exactly the stored values, original order, nothing upstream ran
            if got != flow or up2.pulls != 0 or feeder.pulls != 0:
                return h.ok(False)
            # Cache.alter_sequence documents that a Source is built
            if hoist == 1 and not was_source:
                return h.ok(False)
    return h.ok(True)


def check_interrupted(xs: List[int], with_ctx: bool, k: int, mode: int, hoist: int) -> bool:
    """
    pre: len(xs) <= B.FLOW
    pre: 0 <= k <= len(xs)
    pre: 0 <= mode <= 2
    pre: 0 <= hoist <= 2
    post: _
    """
    flow = mkflow(xs, with_ctx)
    n = len(flow)
    with world([cache_mod]) as fs:
        up = Up(raise_at=k if mode == 2 else None)
        down = Down(raise_at=k if mode == 1 else None)
        seq = Sequence(up, new_cache(fs), down)
        gen = seq.run(iter(mkflow(xs, with_ctx)))
        interrupted = False
        if mode == 0:
            got = take(gen, k)
            interrupted = True          # the consumer never saw the end of the flow
            if got != flow[:k]:
                return h.ok(False)
        else:
            got = []
            try:
                for v in gen:
                    got.append(v)
            except Boom:
                interrupted = True
            if not interrupted and k < n:
                return h.ok(False)
        # a later, complete run
        up2 = Up()
        seq2 = Sequence(up2, new_cache(fs), Down())
        later, _ = run_form(seq2, hoist, iter(mkflow(xs, with_ctx)))
        if later == flow:
            return h.ok(True)
        # anything else - in particular a proper prefix presented as complete
        return h.ok(False)


def check_history(xs: List[int], ops: List[int], k: int, hoist: int) -> bool:
    """
    pre: len(xs) <= B.FLOW
    pre: 1 <= len(ops) <= B.HIST
    pre: 0 <= k <= len(xs)
    pre: 0 <= hoist <= 2
    pre: h.in_shard(len(ops) - 1 + B.HIST * len(xs) + B.HIST * (B.FLOW + 1) * hoist)
    post: _
    """
    flow = mkflow(xs, False)
    n = len(flow)
    valid = False        # model: a complete cache is stored
    with world([cache_mod]) as fs:
        for op in ops:
            o = 0 if op <= 0 else (1 if op == 1 else (2 if op == 2 else (3 if op == 3 else (4 if op == 4 else 5))))
            up = Up()
            if o == 0 or o == 2:
                c = new_cache(fs, recompute=(o == 2))
                # complete runs go through the symbolic route: plain run,
                # Cache.alter_sequence or lena.core.alter_sequence
                got, _src = run_form(Sequence(up, c, Down()), hoist, iter(mkflow(xs, False)))
                if got != flow:
                    return h.ok(False)
                if valid is None and o == 0:
                    if up.pulls not in (0, n):
                        return h.ok(False)
                elif valid and o == 0:
                    if up.pulls != 0:
                        return h.ok(False)
                else:
                    if up.pulls != n:
                        return h.ok(False)
                valid = True
            elif o == 1:
                c = new_cache(fs)
                got = take(Sequence(up, c, Down()).run(iter(mkflow(xs, False))), k)
                if got != flow[:k]:
                    return h.ok(False)
                if valid:
                    if up.pulls != 0:
                        return h.ok(False)
                elif valid is not None:
                    valid = False
            elif o == 4:
                # a recomputing run that is interrupted: whatever it leaves
                # behind, no later run may serve a truncated flow (checked by
                # the following operations); a complete cache stored earlier
                # may survive or not
                c = new_cache(fs, recompute=True)
                got = take(Sequence(up, c, Down()).run(iter(mkflow(xs, False))), k)
                if got != flow[:k]:
                    return h.ok(False)
                valid = None            # unknown: a later run either replays or recomputes
            else:
                # drop_cache() of a plain Cache object (3) or of one created
                # with recompute=True (5): the stored file is gone afterwards
                c = new_cache(fs, recompute=(o == 5))
                if c._filename in fs.files:
                    c.drop_cache()
                    if c._filename in fs.files or new_cache(fs).cache_exists():
                        return h.ok(False)
                valid = False
    return h.ok(True)


def check_two_caches(xs: List[int], state: int, hoist: int) -> bool:
    """
    pre: len(xs) <= B.FLOW
    pre: 0 <= state <= 3
    pre: 0 <= hoist <= 2
    post: _
    """
    # state bit 0: first cache filled, bit 1: second cache filled
    flow = mkflow(xs, False)
    n = len(flow)
    want = [v + 10 for v in flow]
    with world([cache_mod]) as fs:
        # fill both, then drop according to state
        u1, u2 = Up(), Up(add=10)
        s = Sequence(u1, new_cache(fs, "c1.pkl"), u2, new_cache(fs, "d/c2.pkl"))
        if list(s.run(iter(mkflow(xs, False)))) != want:
            return h.ok(False)
        if not state & 1:
            new_cache(fs, "c1.pkl").drop_cache()
        if not state & 2:
            new_cache(fs, "d/c2.pkl").drop_cache()
        u1, u2 = Up(), Up(add=10)
        s = Sequence(u1, new_cache(fs, "c1.pkl"), u2, new_cache(fs, "d/c2.pkl"))
        got, _ = run_form(s, hoist, iter(mkflow(xs, False)))
        if got != want:
            return h.ok(False)
        if state & 2:
            return h.ok(u1.pulls == 0 and u2.pulls == 0)
        if state & 1:
            return h.ok(u1.pulls == 0 and u2.pulls == n)
        return h.ok(u1.pulls == n and u2.pulls == n)


CONDITIONS = [
    dict(fn="check_replay", budget=(60, 600),
         smoke=["check_replay([1, 2, 3], True, 0, 2)", "check_replay([1, 2], False, 1, 1)",
                "check_replay([], False, 2, 1)"]),
    dict(fn="check_interrupted", budget=(70, 900),
         smoke=["check_interrupted([1, 2, 3], False, 3, 0, 0)",
                "check_interrupted([1, 2, 3], False, 3, 2, 1)"]),
    dict(fn="check_history", shards=(45, 72), budget=(110, 1200),
         smoke=["check_history([1, 2], [0, 0, 3], 1, 0)", "check_history([1, 2], [0, 2, 1], 1, 1)",
                "check_history([1, 2], [0, 4, 0], 1, 2)", "check_history([1, 2], [0, 2, 0], 1, 1)"]),
    dict(fn="check_two_caches", budget=(60, 600),
         smoke=["check_two_caches([1, 2], 3, 1)", "check_two_caches([1, 2], 1, 0)",
                "check_two_caches([1, 2], 0, 2)"]),
]
