"""C13 - the static context an element sees depends only on what encloses and
precedes it."""
import copy

import lena.core
import lena.flow
import lena.flow.cache as cache_mod
import lena.output.write as write_mod
from lena.core import Sequence, Source, Split, LenaKeyError
from lena.flow import Cache
from lena.meta import SetContext, StoreContext, UpdateContextFromStatic
from lena.output import MakeFilename, Write

from verif import h
from verif.stubs.fakefs import world

PROPERTY = "C13"
B = h.bounds(
    quick=dict(LEN=2, SHAPES=6, SUF=1),
    thorough=dict(LEN=3, SHAPES=6, SUF=2),
)
ITEMS = ["data element", "SetContext('a','A')", "SetContext('b.c',1)", "SetContext('d','{{a}}_x')",
         "StoreContext", "UpdateContextFromStatic", "MakeFilename('{{a}}')", "Write('{{a}}')",
         "Cache('{{a}}.pkl')", "SetContext('a','B')", "MakeFilename('{{b.c}}')"]
SHAPES = ["flat Sequence", "tail nested in a Sequence at a symbolic cut",
          "tail as one branch of a Split next to a SetContext('e','E') branch",
          "Source(generator, *items)", "head nested in a Sequence at a symbolic cut",
          "Source(generator, Sequence(head), *tail)"]
BOUNDS = dict(vars(B), items=ITEMS, shapes=SHAPES, meaning="programs of <= LEN items over `items` in "
              "the first SHAPES tree shapes (symbolic cut), extended by a suffix of <= SUF later "
              "SetContext elements / a sibling Split branch, which must not change any earlier "
              "observation; check_no_leak: sequences of <= 3 items over SetContext / "
              "UpdateContextFromStatic / MakeFilename / an in-place run-time context mutator, a flow "
              "of two values, run twice")
FUNCTIONS = ["lena.core.lena_sequence.LenaSequence.__init__/_set_context/_get_context",
             "lena.core.split.LenaSplit._set_context/_get_context", "lena.meta.elements.SetContext",
             "StoreContext", "UpdateContextFromStatic", "MakeFilename._set_context/__call__",
             "Write._set_context", "Cache._set_context", "lena.context.format_update_with",
             "lena.context.intersection"]
STUBS = ["open/os of lena.flow.cache and lena.output.write -> FakeFS/FakeOS"]
ASSUMPTIONS = ["observations after a SetContext whose formatting key cannot be resolved are not "
               "specified by the statement: only the LenaKeyError naming the key is checked there"]
OUTSIDE = ["trees deeper than the listed shapes", "item lists longer than LEN"]


def ident(v):
    return v


def _gen():
    yield (0, {})


def make_item(k):
    if k == 0:
        return ident
    if k == 1:
        return SetContext("a", "A")
    if k == 2:
        return SetContext("b.c", 1)
    if k == 3:
        return SetContext("d", "{{a}}_x")
    if k == 4:
        return StoreContext()
    if k == 5:
        return UpdateContextFromStatic()
    if k == 6:
        return MakeFilename("{{a}}")
    if k == 7:
        return Write("{{a}}", verbose=False)
    if k == 8:
        c = Cache("{{a}}.pkl")
        return c
    if k == 10:
        return MakeFilename("{{b.c}}")
    return SetContext("a", "B")


SUFFIX = [SetContext, ("a", "Z"), ("b.c", 2), ("q", "Q")]
SUFFIX_ALT = [SetContext, ("b.c", 2), ("a", "Z"), ("q", "Q")]


def apply_set(ctx, k):
    """Reference: one SetContext applied to ctx; returns new ctx or raises KeyError(key)."""
    ctx = copy.deepcopy(ctx)
    if k == 1:
        ctx["a"] = "A"
    elif k == 9:
        ctx["a"] = "B"
    elif k == 2:
        b = ctx.get("b")
        if not isinstance(b, dict):
            b = {}
        b = dict(b)
        b["c"] = 1
        ctx["b"] = b
    elif k == 3:
        if "a" not in ctx:
            raise KeyError("a")
        ctx["d"] = "%s_x" % (ctx["a"],)
    return ctx


def _same(v):
    return v


def reference(kinds, shape, cut, lead=False):
    """Expected observation of every observer item (by position) and the
    final context of the whole sequence, by folding the SetContext elements
    in document order.  Returns (obs: dict position -> context or None if
    unspecified, final context or 'keyerror')."""
    obs = {}
    ctx = {}
    failed = False
    n = len(kinds)

    def walk(positions, ctx, failed):
        for p in positions:
            k = kinds[p]
            if k in (1, 2, 3, 9):
                if not failed:
                    try:
                        ctx = apply_set(ctx, k)
                    except KeyError:
                        failed = True
            elif k in (4, 5, 6, 7, 8, 10):
                obs[p] = None if failed else copy.deepcopy(ctx)
        return ctx, failed

    if shape in (0, 1, 3, 4, 5):
        ctx, failed = walk(range(n), ctx, failed)
        return obs, ("keyerror" if failed else ctx)
    # Split: head, then branch 0 = tail, branch 1 = SetContext('e', 'E')
    ctx, failed = walk(range(cut), ctx, failed)
    bctx, bfailed = walk(range(cut, n), copy.deepcopy(ctx), failed)
    if failed or bfailed:
        return obs, "keyerror"
    other = copy.deepcopy(ctx)
    other["e"] = "E"
    final = lena.context.intersection(bctx, other)
    if lead:
        # a leading branch without any SetContext exports what it received
        final = lena.context.intersection(final, ctx)
    return obs, final


def build(kinds, shape, cut, suffix, sibling, lead=False):
    els = [make_item(k) for k in kinds]
    for c in els:
        if isinstance(c, Cache):
            pass
    # programs observing b.c get the suffix that rewrites b.c first
    table = SUFFIX_ALT if 10 in kinds else SUFFIX
    suf = [SetContext(*table[1 + i]) for i in range(suffix)]
    if shape == 0:
        seq = Sequence(*(els + suf))
    elif shape == 1:
        seq = Sequence(*(els[:cut] + [Sequence(*els[cut:])] + suf))
    elif shape == 2:
        branches = [tuple(els[cut:]), (SetContext("e", "E"),)]
        if lead:
            # a data-only branch (its static context is what the Split received) first
            branches.insert(0, (_same,))
        if sibling:
            branches.append((SetContext("a", "Y"), SetContext("s", "S")))
        seq = Sequence(*(els[:cut] + [Split(branches)] + suf))
    elif shape == 3:
        seq = Source(_gen, *(els + suf))
    elif shape == 4:
        seq = Sequence(*([Sequence(*els[:cut])] + els[cut:] + suf))
    else:
        seq = Source(*([_gen, Sequence(*els[:cut])] + els[cut:] + suf))
    return seq, els


def observe(k, el):
    if k == 4:
        return copy.deepcopy(el.context)
    if k == 5:
        return copy.deepcopy(el._context)
    if k in (6, 10):
        res = el((0, {}))
        return res[1].get("output", {}).get("filename") if isinstance(res, tuple) else None
    if k == 7:
        return el.output_directory
    return el._filename


def expected_obs(k, ctx):
    if k in (4, 5):
        return ctx
    a = ctx.get("a")
    if k == 10:
        bc = ctx.get("b", {}).get("c") if isinstance(ctx.get("b"), dict) else None
        return None if bc is None else str(bc)
    if k == 6:
        return a
    if k == 7:
        return a if a is not None else "{{a}}"
    return (a + ".pkl") if a is not None else "{{a}}.pkl"


def check_program(n: int, k0: int, k1: int, k2: int, k3: int, shape: int, cut: int,
                  suffix: int, sibling: bool, lead: bool = False) -> bool:
    """
    pre: 1 <= n <= B.LEN
    pre: 0 <= k0 <= 10 and 0 <= k1 <= 10 and 0 <= k2 <= 10 and 0 <= k3 <= 10
    pre: 0 <= shape < B.SHAPES
    pre: 0 <= cut <= n
    pre: 0 <= suffix <= B.SUF
    pre: (not lead) or shape == 2
    pre: h.in_shard(k0 + 11 * (2 if lead else shape % 2))
    post: _
    """
    n = h.concrete(n, 1, B.LEN)
    kinds = [h.concrete(k, 0, 10) for k in [k0, k1, k2, k3][:n]]
    shape = h.concrete(shape, 0, B.SHAPES - 1)
    cut = h.concrete(cut, 0, n)
    suffix = h.concrete(suffix, 0, B.SUF)
    sib = True if sibling else False
    if shape == 2 and cut == n:
        cut = n - 1          # a Split branch needs at least one element
    if shape in (4, 5) and cut == 0:
        cut = 1
    ld = (True if lead else False) and shape == 2
    obs, final = reference(kinds, shape, cut, ld)
    with world([cache_mod, write_mod]):
        seq, els = build(kinds, shape, cut, 0, False, ld)
        # what each observer saw == the fold of what precedes it
        for p, want in obs.items():
            if want is None:
                continue
            if observe(kinds[p], els[p]) != expected_obs(kinds[p], want):
                return h.ok(False)
        # the context of the sequence, or the LenaKeyError naming the key
        try:
            got = seq._get_context()
        except LenaKeyError as e:
            if final != "keyerror" or "a" not in str(e):
                return h.ok(False)
            got = "keyerror"
        if final == "keyerror":
            if got != "keyerror":
                return h.ok(False)
        elif got != final:
            return h.ok(False)
        # the nested head sequence keeps the fold of its own prefix, whatever follows it
        if shape in (4, 5):
            hobs, hfinal = reference(kinds[:cut], 0, 0)
            inner = seq[0] if shape == 4 else seq[1]
            for sfx in ([0, suffix] if suffix else [0]):
                if sfx:
                    seqx, _ = build(kinds, shape, cut, sfx, False)
                    inner = seqx[0] if shape == 4 else seqx[1]
                try:
                    got_inner = inner._get_context()
                except LenaKeyError:
                    got_inner = "keyerror"
                if got_inner != hfinal:
                    return h.ok(False)
        # a later element / sibling branch changes no earlier observation
        if suffix or (sib and shape == 2):
            seq2, els2 = build(kinds, shape, cut, suffix, sib, ld)
            for p, want in obs.items():
                if want is None:
                    continue
                if observe(kinds[p], els2[p]) != expected_obs(kinds[p], want):
                    return h.ok(False)
    return h.ok(True)


def mark(v):
    """An ordinary run-time element that updates its value's context in place:
    every sub-dictionary gets the key "rt" set to the data."""
    data, ctx = v
    for key in sorted(ctx):
        if isinstance(ctx[key], dict):
            ctx[key]["rt"] = data
    return v


def check_no_leak(n: int, k0: int, k1: int, k2: int, nested: bool) -> bool:
    """
    pre: 1 <= n <= 3
    pre: 0 <= k0 <= 7 and 0 <= k1 <= 7 and 0 <= k2 <= 7
    pre: h.in_shard(k0)
    post: _
    """
    # run-time context gets static keys only through UpdateContextFromStatic,
    # and nothing done to a value at run time reaches the static context (or
    # the next value, or the next run of the same sequence); kind 7 = mark
    n = h.concrete(n, 1, 3)
    kinds = [h.concrete(k, 0, 7) for k in [k0, k1, k2][:n]]
    els = [mark if k == 7 else make_item(k) for k in kinds]
    seq = Sequence(Sequence(*els)) if nested else Sequence(*els)
    # expected run-time context of a value: for each UCFS the fold before it, merged in order
    wants = []
    folds = {}
    for data in (7, 8):
        want = {}
        cur = {}
        failed = False
        for p, k in enumerate(kinds):
            if k in (1, 2, 3):
                if not failed:
                    try:
                        cur = apply_set(cur, k)
                    except KeyError:
                        failed = True
            elif k == 5:
                if failed:
                    return h.ok(True)      # unspecified after an unresolved key
                folds[p] = copy.deepcopy(cur)
                lena.context.update_recursively(want, copy.deepcopy(cur))
            elif k == 6:
                if failed:
                    return h.ok(True)
                a = want.get("a", cur.get("a"))
                if a is not None and "filename" not in want.get("output", {}):
                    lena.context.update_recursively(want, {"output": {"filename": a}})
            elif k == 7:
                for key in sorted(want):
                    if isinstance(want[key], dict):
                        want[key]["rt"] = data
        wants.append((data, want))
    for run in range(2):
        res = list(seq.run(iter([(7, {}), (8, {})])))
        if len(res) != 2:
            return h.ok(False)
        for i in range(2):
            if res[i][0] != wants[i][0] or res[i][1] != wants[i][1]:
                return h.ok(False)
        # what UpdateContextFromStatic saw at initialisation is still the fold
        for p in folds:
            if els[p]._context != folds[p]:
                return h.ok(False)
    return h.ok(True)


CONDITIONS = [
    dict(fn="check_program", shards=(33, 33), budget=(120, 1500),
         smoke=["check_program(2, 1, 4, 2, 0, 0, 0, 1, False)", "check_program(2, 1, 3, 5, 0, 1, 1, 1, False)",
                "check_program(2, 1, 6, 7, 0, 2, 1, 0, True)", "check_program(2, 3, 4, 8, 0, 3, 0, 0, False)",
                "check_program(2, 9, 4, 0, 0, 2, 1, 0, False)", "check_program(2, 1, 6, 0, 0, 4, 1, 1, False)", "check_program(2, 1, 5, 0, 0, 5, 1, 1, False)", "check_program(2, 2, 10, 0, 0, 0, 0, 1, False)"]),
    dict(fn="check_no_leak", shards=(8, 8), budget=(80, 900),
         smoke=["check_no_leak(3, 1, 5, 6, False)", "check_no_leak(2, 1, 6, 0, True)",
                "check_no_leak(3, 2, 5, 7, False)", "check_no_leak(3, 5, 7, 5, True)"]),
]
