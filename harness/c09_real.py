"""C09, engine R layer: Sum, Mean, VarianceMeanCount and Vectorize over
*symbolic real* data (verif.symreal), for every history fill / compute /
reset of a concrete shape.  The variance is a degree-2 polynomial identity

    sum(x_i^2)/n - (sum(x_i)/n)^2  [* n/(n-1)]  ==  sum((x_i - m)^2) / (n-1 | n)

which CrossHair cannot decide (x**2 aborts the analysis); here it is one
validity query in non-linear real arithmetic per compute().
"""
import copy
import itertools
import sys

import lena.core
import lena.math
from lena.math import Sum, Mean, VarianceMeanCount, Vectorize

from verif import symreal as R

elements_mod = sys.modules["lena.math.elements"]


def stubs():
    return R.stubs(elements_mod)


def make(kind):
    if kind == "Sum":
        return Sum()
    if kind == "Mean":
        return Mean()
    if kind == "Var":
        return VarianceMeanCount()
    if kind == "VarUncorrected":
        return VarianceMeanCount(corrected=False)
    if kind == "VecSum":
        return Vectorize(Sum(), dim=2)
    if kind == "VecVar":
        return Vectorize(VarianceMeanCount(corrected=False), dim=2)
    raise KeyError(kind)


KINDS = ["Sum", "Mean", "Var", "VarUncorrected", "VecSum", "VecVar"]


def _expect(c, kind, filled, last_ctx, res, label):
    """Obligations for one compute() result; filled = data since the last reset."""
    n = len(filled)

    def total(xs):
        t = 0
        for x in xs:
            t = t + x
        return t

    def split(r):
        if last_ctx:
            ok = isinstance(r, tuple) and len(r) == 2 and r[1] == last_ctx and r[1] is not last_ctx
            c.check(label + ":context of the last filled value (a copy)", ok)
            return r[0] if ok else None
        return r

    if kind == "Sum":
        c.check(label + ":one result", len(res) == 1)
        r = split(res[0])
        if r is not None:
            c.check(label + ":sum", r, total(filled))
        return
    if kind == "VecSum":
        c.check(label + ":one result", len(res) == 1)
        r = split(res[0])
        if r is not None:
            c.check(label + ":arity", len(r) == 2)
            c.check(label + ":sum0", r[0], total([x[0] for x in filled]))
            c.check(label + ":sum1", r[1], total([x[1] for x in filled]))
        return
    if kind == "Mean":
        c.check(label + ":one result", len(res) == 1)
        r = split(res[0])
        if r is not None:
            c.check(label + ":mean*n == sum", r * n, total(filled))
        return

    def var_ob(r, xs, corrected, lab):
        m = total(xs) / n
        sq = total([(x - m) * (x - m) for x in xs])
        c.check(lab + ":mean", r.mean * n, total(xs))
        c.check(lab + ":count", r.count == n)
        c.check(lab + ":variance", r.variance * ((n - 1) if corrected else n), sq)

    if kind in ("Var", "VarUncorrected"):
        c.check(label + ":one result", len(res) == 1)
        r = split(res[0])
        if r is not None:
            var_ob(r, filled, kind == "Var", label)
        return
    if kind == "VecVar":
        c.check(label + ":one result", len(res) == 1)
        r = split(res[0])
        if r is not None:
            c.check(label + ":arity", len(r) == 2)
            var_ob(r[0], [x[0] for x in filled], False, label + ":0")
            var_ob(r[1], [x[1] for x in filled], False, label + ":1")
        return
    raise KeyError(kind)


def sc_history(c, kind, ops, with_ctx):
    """ops: string over f (fill), c (compute), r (reset)."""
    with stubs():
        el = make(kind)
        fresh_needed = "r" in ops
        filled = []
        last_ctx = None
        k = 0
        for i, op in enumerate(ops):
            if op == "f":
                k += 1
                if kind.startswith("Vec"):
                    data = (c.fresh("x%d" % k), c.fresh("y%d" % k))
                else:
                    data = c.fresh("x%d" % k)
                ctx = {"i": k, "n": {"k": [k]}} if with_ctx else None
                el.fill((data, ctx) if with_ctx else data)
                filled.append(data)
                last_ctx = copy.deepcopy(ctx) if with_ctx else None
            elif op == "r":
                el.reset()
                filled = []
                last_ctx = None
            else:
                n = len(filled)
                needs = 0 if kind in ("Sum", "VecSum") else (2 if kind == "Var" else 1)
                try:
                    res = list(el.compute())
                except lena.core.LenaZeroDivisionError:
                    c.check("op %d: LenaZeroDivisionError only for too few values" % i, n < needs)
                    continue
                c.check("op %d: too few values must raise" % i, n >= needs)
                if n >= needs:
                    _expect(c, kind, filled, last_ctx, res, "op %d" % i)
        if fresh_needed and filled:
            # after the last reset: observationally equal to a fresh element
            fresh = make(kind)
            for j, d in enumerate(filled):
                ctx = {"i": j, "n": {"k": [j]}} if with_ctx else None
                fresh.fill((d, ctx) if with_ctx else d)
            needs = 0 if kind in ("Sum", "VecSum") else (2 if kind == "Var" else 1)
            if len(filled) >= needs:
                a = list(el.compute())
                b = list(fresh.compute())
                c.check("fresh: same number of results", len(a) == len(b))
                for x, y in zip(a, b):
                    dx = x[0] if with_ctx else x
                    dy = y[0] if with_ctx else y
                    fx = list(dx) if isinstance(dx, tuple) else [dx]
                    fy = list(dy) if isinstance(dy, tuple) else [dy]
                    fx = [u for t in fx for u in (list(t) if isinstance(t, tuple) else [t])]
                    fy = [u for t in fy for u in (list(t) if isinstance(t, tuple) else [t])]
                    c.check("fresh: same arity", len(fx) == len(fy))
                    for u, v in zip(fx, fy):
                        c.check("reset == fresh", u, v)


SCENARIOS = {"history": sc_history}


def histories(maxlen):
    out = []
    for n in range(1, maxlen + 1):
        for ops in itertools.product("fcr", repeat=n):
            s = "".join(ops)
            if "c" not in s:
                continue
            out.append(s)
    return out


def replay_real(name, args_json, assignment_json):
    return R.replay(SCENARIOS, name, args_json, assignment_json)


def run_cases(name, cases, budget):
    return R.run_cases("harness.c09_real", SCENARIOS, name, cases, budget)
