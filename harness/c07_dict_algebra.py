"""C07 - nested-dictionary algebra: intersection, difference, update_recursively,
update_nested."""
import copy
from typing import Dict, Union

import lena.core
from lena.context import (intersection, difference, update_recursively,
                          update_nested)

from verif import h

PROPERTY = "C07"
B = h.bounds(
    quick=dict(KAA=1, KAB=1, KB=1, LEVELS=2, KXB=0),
    thorough=dict(KAA=4, KAB=2, KB=3, LEVELS=3, KXB=1),
)
BOUNDS = dict(vars(B), meaning="dictionaries over keys {a, b}: key a absent | int leaf | special "
              "leaf (None or '') | sub-dictionary whose key a is absent | int | special "
              "[| {a: int} | {} when KAA=4; key b of the sub-dictionary up to KAB] and key b absent | int | special; key b absent | int "
              "[| special | {a: int} when KB=3]; int leaves are unconstrained symbolic integers "
              "(so 0/False-like, equal and different leaves are all covered); level in -1..LEVELS")
FUNCTIONS = ["lena.context.functions.intersection", "difference", "update_recursively",
             "update_nested", "str_to_dict"]
STUBS = []
ASSUMPTIONS = ["dictionary equality is Python == (0 == False), as the code under test sees it"]
OUTSIDE = ["keys beyond {a, b}, depth > 3, list leaves, free-form dictionaries (bughunt only)"]

SPECIAL = [None, ""]


def build(ka, va, kaa, vaa, kab, vab, kb, vb, vba, sp):
    """Structured symbolic dictionary (see BOUNDS)."""
    d = {}
    if ka == 1:
        d["a"] = va
    elif ka == 2:
        d["a"] = SPECIAL[sp]
    elif ka == 3:
        sub = {}
        if kaa == 1:
            sub["a"] = vaa
        elif kaa == 2:
            sub["a"] = SPECIAL[sp]
        elif kaa == 3:
            sub["a"] = {"a": vaa}
        elif kaa == 4:
            sub["a"] = {}
        if kab == 1:
            sub["b"] = vab
        elif kab == 2:
            sub["b"] = SPECIAL[sp]
        d["a"] = sub
    if kb == 1:
        d["b"] = vb
    elif kb == 2:
        d["b"] = SPECIAL[sp]
    elif kb == 3:
        d["b"] = {"a": vba}
    return d


def build_small(ka, va, kaa, vaa, kb, vb):
    """Reduced shape set for third operands."""
    d = {}
    if ka == 1:
        d["a"] = va
    elif ka == 2:
        d["a"] = {}
    elif ka == 3:
        d["a"] = {"a": vaa} if kaa else {"b": vaa}
    if kb == 1:
        d["b"] = vb
    return d


def contained(x, d):
    """x is contained in d (items recursively)."""
    for k in x:
        if k not in d:
            return False
        if x[k] == d[k]:
            continue
        if isinstance(x[k], dict) and isinstance(d[k], dict):
            if not contained(x[k], d[k]):
                return False
        else:
            return False
    return True


def ref_intersection(a, b, level):
    if level == 0:
        return copy.deepcopy(a) if (a == b) else {}
    r = {}
    for k in a:
        if k in b:
            if a[k] == b[k]:
                r[k] = copy.deepcopy(a[k])
            elif level != 1 and isinstance(a[k], dict) and isinstance(b[k], dict):
                r[k] = ref_intersection(a[k], b[k], level - 1)
    return r


def ref_difference(a, b, level):
    """Items of a not contained in b (docstring of difference)."""
    if a == b:
        return {}
    if level == 0:
        return a
    r = {}
    for k in a:
        if k not in b:
            r[k] = a[k]
        elif a[k] == b[k]:
            continue
        elif level != 1 and isinstance(a[k], dict) and isinstance(b[k], dict):
            sub = ref_difference(a[k], b[k], level - 1)
            if sub:
                r[k] = sub
        else:
            r[k] = a[k]
    return r


def ref_update(d, o):
    d = copy.deepcopy(d)
    for k in o:
        if isinstance(o[k], dict) and k in d and isinstance(d[k], dict):
            d[k] = ref_update(d[k], o[k])
        else:
            d[k] = copy.deepcopy(o[k])
    return d


def poison(d):
    """Mutate every dictionary reachable from d."""
    for k in list(d):
        if isinstance(d[k], dict):
            poison(d[k])
    d["__poison__"] = 1


def check_intersection(ka1: int, va1: int, kaa1: int, vaa1: int, kab1: int, vab1: int,
                       kb1: int, vb1: int, vba1: int, sp1: int,
                       ka2: int, va2: int, kaa2: int, vaa2: int, kab2: int, vab2: int,
                       kb2: int, vb2: int, vba2: int, sp2: int, level: int) -> bool:
    """
    pre: 0 <= ka1 <= 3 and 0 <= kaa1 <= B.KAA and 0 <= kab1 <= B.KAB and 0 <= kb1 <= B.KB
    pre: 0 <= ka2 <= 3 and 0 <= kaa2 <= B.KAA and 0 <= kab2 <= B.KAB and 0 <= kb2 <= B.KB
    pre: 0 <= sp1 <= 1 and 0 <= sp2 <= 1
    pre: -1 <= level <= B.LEVELS
    pre: h.in_shard(ka1 + 4 * ka2 + 5 * kaa1 + 7 * kaa2 + 3 * kab1)
    post: _
    """
    d1 = build(ka1, va1, kaa1, vaa1, kab1, vab1, kb1, vb1, vba1, sp1)
    d2 = build(ka2, va2, kaa2, vaa2, kab2, vab2, kb2, vb2, vba2, sp2)
    s1, s2 = copy.deepcopy(d1), copy.deepcopy(d2)
    res = intersection(d1, d2, level=level)
    rev = intersection(d2, d1, level=level)
    if not (d1 == s1 and d2 == s2):
        return h.ok(False)
    want = ref_intersection(s1, s2, level)
    if not (res == want and rev == want):
        return h.ok(False)
    if level == -1 and not (contained(res, s1) and contained(res, s2)):
        return h.ok(False)
    # the result is a deep copy: poisoning it leaves the arguments alone
    poison(res)
    return h.ok(d1 == s1 and d2 == s2)


def check_intersection_greatest(ka1: int, va1: int, kaa1: int, vaa1: int, kab1: int, vab1: int,
                                kb1: int, vb1: int,
                                ka2: int, va2: int, kaa2: int, vaa2: int, kab2: int, vab2: int,
                                kb2: int, vb2: int,
                                kx: int, vx: int, kxa: int, vxa: int, kxb: int, vxb: int) -> bool:
    """
    pre: 0 <= ka1 <= 3 and 0 <= kaa1 <= 1 and 0 <= kab1 <= 1 and 0 <= kb1 <= 1
    pre: 0 <= ka2 <= 3 and 0 <= kaa2 <= 1 and 0 <= kab2 <= 1 and 0 <= kb2 <= 1
    pre: 0 <= kx <= 3 and 0 <= kxa <= 1 and 0 <= kxb <= B.KXB
    pre: h.in_shard(ka1 + 4 * ka2 + 5 * kaa1 + 7 * kaa2 + 3 * kx)
    post: _
    """
    d1 = build(ka1, va1, kaa1, vaa1, kab1, vab1, kb1, vb1, 0, 0)
    d2 = build(ka2, va2, kaa2, vaa2, kab2, vab2, kb2, vb2, 0, 0)
    x = build_small(kx, vx, kxa, vxa, kxb, vxb)
    res = intersection(d1, d2)
    if contained(x, d1) and contained(x, d2):
        return h.ok(contained(x, res))
    return h.ok(True)


def check_intersection_assoc(ka1: int, va1: int, kaa1: int, vaa1: int, kb1: int, vb1: int,
                             ka2: int, va2: int, kaa2: int, vaa2: int, kb2: int, vb2: int,
                             ka3: int, va3: int, kaa3: int, vaa3: int, kb3: int, vb3: int) -> bool:
    """
    pre: 0 <= ka1 <= 3 and 0 <= kaa1 <= 1 and 0 <= kb1 <= 1
    pre: 0 <= ka2 <= 3 and 0 <= kaa2 <= 1 and 0 <= kb2 <= 1
    pre: 0 <= ka3 <= 3 and 0 <= kaa3 <= 1 and 0 <= kb3 <= 1
    pre: h.in_shard(ka1 + 4 * ka2 + 5 * ka3)
    post: _
    """
    d1 = build_small(ka1, va1, kaa1, vaa1, kb1, vb1)
    d2 = build_small(ka2, va2, kaa2, vaa2, kb2, vb2)
    d3 = build_small(ka3, va3, kaa3, vaa3, kb3, vb3)
    nary = intersection(d1, d2, d3)
    left = intersection(intersection(d1, d2), d3)
    right = intersection(d1, intersection(d2, d3))
    idem = intersection(d1, d1)
    return h.ok(nary == left and left == right and idem == d1
                and intersection(d1) == d1 and intersection() == {})


def check_difference(ka1: int, va1: int, kaa1: int, vaa1: int, kab1: int, vab1: int,
                     kb1: int, vb1: int, vba1: int, sp1: int,
                     ka2: int, va2: int, kaa2: int, vaa2: int, kab2: int, vab2: int,
                     kb2: int, vb2: int, vba2: int, sp2: int, level: int) -> bool:
    """
    pre: 0 <= ka1 <= 3 and 0 <= kaa1 <= B.KAA and 0 <= kab1 <= B.KAB and 0 <= kb1 <= B.KB
    pre: 0 <= ka2 <= 3 and 0 <= kaa2 <= B.KAA and 0 <= kab2 <= B.KAB and 0 <= kb2 <= B.KB
    pre: 0 <= sp1 <= 1 and 0 <= sp2 <= 1
    pre: -1 <= level <= B.LEVELS
    pre: h.in_shard(ka1 + 4 * ka2 + 5 * kaa1 + 7 * kaa2 + 3 * kab1)
    post: _
    """
    d1 = build(ka1, va1, kaa1, vaa1, kab1, vab1, kb1, vb1, vba1, sp1)
    d2 = build(ka2, va2, kaa2, vaa2, kab2, vab2, kb2, vb2, vba2, sp2)
    s1, s2 = copy.deepcopy(d1), copy.deepcopy(d2)
    diff = difference(d1, d2, level)
    if not (d1 == s1 and d2 == s2):
        return h.ok(False)
    if diff != ref_difference(s1, s2, level):
        return h.ok(False)
    # updating the intersection with the difference reconstructs d1
    rec = intersection(d1, d2, level=level)
    update_recursively(rec, copy.deepcopy(diff))
    return h.ok(rec == s1 and d1 == s1 and d2 == s2)


def check_update_recursively(ka1: int, va1: int, kaa1: int, vaa1: int, kab1: int, vab1: int,
                             kb1: int, vb1: int, vba1: int, sp1: int,
                             ka2: int, va2: int, kaa2: int, vaa2: int, kab2: int, vab2: int,
                             kb2: int, vb2: int, vba2: int, sp2: int) -> bool:
    """
    pre: 0 <= ka1 <= 3 and 0 <= kaa1 <= B.KAA and 0 <= kab1 <= B.KAB and 0 <= kb1 <= B.KB
    pre: 0 <= ka2 <= 3 and 0 <= kaa2 <= B.KAA and 0 <= kab2 <= B.KAB and 0 <= kb2 <= B.KB
    pre: 0 <= sp1 <= 1 and 0 <= sp2 <= 1
    pre: h.in_shard(ka1 + 4 * ka2 + 5 * kaa1 + 7 * kaa2 + 3 * kab1)
    post: _
    """
    d = build(ka1, va1, kaa1, vaa1, kab1, vab1, kb1, vb1, vba1, sp1)
    o = build(ka2, va2, kaa2, vaa2, kab2, vab2, kb2, vb2, vba2, sp2)
    sd, so = copy.deepcopy(d), copy.deepcopy(o)
    ret = update_recursively(d, o)
    if ret is not None or o != so:
        return h.ok(False)
    if not contained(so, d):
        return h.ok(False)
    return h.ok(d == ref_update(sd, so))


def check_update_string(ka1: int, va1: int, kaa1: int, vaa1: int, kab1: int, vab1: int,
                        kb1: int, vb1: int, path: int, value: int, with_value: bool) -> bool:
    """
    pre: 0 <= ka1 <= 3 and 0 <= kaa1 <= 2 and 0 <= kab1 <= 2 and 0 <= kb1 <= 1
    pre: 0 <= path <= 4
    post: _
    """
    # other given as a dotted string (+ value): same as the dictionary form
    d = build(ka1, va1, kaa1, vaa1, kab1, vab1, kb1, vb1, 0, 0)
    sd = copy.deepcopy(d)
    s = ["a", "b", "a.a", "a.b", "a.a.a"][path]
    if with_value:
        update_recursively(d, s, value)
        o = value
        for k in reversed(s.split(".")):
            o = {k: o}
        return h.ok(d == ref_update(sd, o))
    try:
        update_recursively(d, s)
    except lena.core.LenaValueError:
        return h.ok("." not in s and d == sd)
    parts = s.split(".")
    o = parts[-1]
    for k in reversed(parts[:-1]):
        o = {k: o}
    return h.ok("." in s and d == ref_update(sd, o))


def check_update_nested(ka1: int, va1: int, kaa1: int, vaa1: int, kab1: int, vab1: int,
                        kb1: int, vb1: int, vba1: int, sp1: int,
                        depth: int, vo: int, extra: bool) -> bool:
    """
    pre: 0 <= ka1 <= 3 and 0 <= kaa1 <= B.KAA and 0 <= kab1 <= B.KAB and 0 <= kb1 <= B.KB
    pre: 0 <= sp1 <= 1
    pre: 0 <= depth <= 3
    post: _
    """
    d = build(ka1, va1, kaa1, vaa1, kab1, vab1, kb1, vb1, vba1, sp1)
    sd = copy.deepcopy(d)
    had = "a" in d
    prev = d.get("a")
    # other = {x: vo, a: {x: vo, a: {... }}} nested `depth` times under key a
    other = {"x": vo}
    cur = other
    for _ in range(depth):
        cur["a"] = {"x": vo}
        cur = cur["a"]
    if extra:
        other["b"] = vo
    update_nested("a", d, other)
    if d["a"] is not other:
        return h.ok(False)
    # everything else in d untouched
    for k in sd:
        if k != "a" and d[k] != sd[k]:
            return h.ok(False)
    if set(d) != set(sd) | {"a"}:
        return h.ok(False)
    deepest = other
    for _ in range(depth):
        deepest = deepest["a"]
    if had:
        return h.ok(deepest.get("a", h) is prev and prev == sd["a"])
    return h.ok("a" not in deepest)


Leaf = Union[int, bool, None, str]
Nested = Dict[str, Union[int, bool, None, str, Dict[str, Union[int, bool, None, str]]]]


def hunt_reconstruct(d1: Nested, d2: Nested) -> bool:
    """
    pre: len(d1) <= 3 and len(d2) <= 3
    post: _
    """
    s1 = copy.deepcopy(d1)
    rec = intersection(d1, d2)
    update_recursively(rec, copy.deepcopy(difference(d1, d2)))
    return h.ok(rec == s1)


def hunt_intersection(d1: Nested, d2: Nested) -> bool:
    """
    pre: len(d1) <= 3 and len(d2) <= 3
    post: _
    """
    res = intersection(d1, d2)
    return h.ok(contained(res, d1) and contained(res, d2)
                and res == ref_intersection(d1, d2, -1))


_D = "0, 0, 0, 0, 0, 0, 0, 0, 0, 0"
CONDITIONS = [
    dict(fn="check_intersection", shards=(10, 32), budget=(70, 1500),
         smoke=["check_intersection(3, 0, 1, 5, 1, 6, 1, 7, 0, 0, 3, 0, 1, 5, 1, 9, 0, 0, 0, 0, -1)",
                "check_intersection(1, 4, 0, 0, 0, 0, 0, 0, 0, 0, 1, 4, 0, 0, 0, 0, 1, 2, 0, 0, 1)"]),
    dict(fn="check_intersection_greatest", shards=(8, 16), budget=(70, 900),
         smoke=["check_intersection_greatest(3,0,1,5,1,6,1,7, 3,0,1,5,1,9,0,0, 3,0,1,5,0,0)"]),
    dict(fn="check_intersection_assoc", shards=(8, 16), budget=(70, 900),
         smoke=["check_intersection_assoc(3,0,1,5,1,7, 3,0,1,5,1,7, 3,0,1,6,1,7)"]),
    dict(fn="check_difference", shards=(10, 32), budget=(70, 1500),
         smoke=["check_difference(3, 0, 1, 5, 1, 6, 1, 7, 0, 0, 3, 0, 1, 5, 1, 9, 0, 0, 0, 0, -1)",
                "check_difference(1, 4, 0, 0, 0, 0, 1, 3, 0, 0, 1, 4, 0, 0, 0, 0, 1, 2, 0, 0, 1)"]),
    dict(fn="check_update_recursively", shards=(6, 32), budget=(70, 1500),
         smoke=["check_update_recursively(3, 0, 1, 5, 1, 6, 1, 7, 0, 0, 3, 0, 1, 5, 0, 9, 0, 0, 0, 0)"]),
    dict(fn="check_update_string", budget=(60, 400),
         smoke=["check_update_string(3, 0, 1, 5, 1, 6, 1, 7, 2, 9, True)",
                "check_update_string(3, 0, 1, 5, 1, 6, 1, 7, 3, 9, False)"]),
    dict(fn="check_update_nested", budget=(60, 600),
         smoke=["check_update_nested(3, 0, 1, 5, 1, 6, 1, 7, 0, 0, 2, 4, True)",
                "check_update_nested(0, 0, 1, 5, 1, 6, 1, 7, 0, 0, 1, 4, False)"]),
    dict(fn="hunt_reconstruct", kind="bughunt", budget=(45, 300), no_twin=True,
         smoke=["hunt_reconstruct({'a': 1, 'b': {'c': 2}}, {'b': {'c': 2}})"]),
    dict(fn="hunt_intersection", kind="bughunt", budget=(45, 300), no_twin=True,
         smoke=["hunt_intersection({'a': 1, 'b': {'c': 2}}, {'b': {'c': 2}})"]),
]
