"""C08 - context addressing, formatting, canonical strings, update elements."""
import copy

import lena.core
import lena.flow
import lena.context
from lena.core import LenaKeyError, LenaTypeError, LenaValueError
from lena.context import (get_recursively, str_to_dict, str_to_list, contains,
                          format_context, to_string, format_update_with,
                          UpdateContext, DeleteContext)

from verif import h
from verif.stubs.untraced import fast_jinja

PROPERTY = "C08"
B = h.bounds(
    quick=dict(SLEN=3, NPATH=12, SEG=3, SEG3FREE=0, TS=36, NSUB=3, UKAA=3, UKB=1, NALPHA=5),
    thorough=dict(SLEN=4, NPATH=16, SEG=3, SEG3FREE=1, TS=144, NSUB=6, UKAA=3, UKB=2, NALPHA=7),
)
PATHS = ["a", "b", "a.a", "a.b", "b.a", "a.a.a", "a.c", "c", "a.b.a", "", "a.a.b", "c.a",
         "a.a.a.a", "b.a.a", "a.a.a.b", "a.b.c.a"]
BOUNDS = dict(vars(B), paths=PATHS, meaning="contexts over keys {a, b} to depth 3 with leaves 1, None and "
              "'b' (a string equal to a key name), scalars where a path expects a dictionary; "
              "key paths = first NPATH entries of `paths` (length 0..4: present, absent, through "
              "a scalar) in dotted, list and nested-dict notation; arbitrary strings of length "
              "<= SLEN as key / template / subcontext; templates of <= SEG segments; the full "
              "value/default/skip_on_missing/raise_on_missing/recursively option matrix")
FUNCTIONS = ["lena.context.functions.get_recursively", "str_to_dict", "str_to_list", "contains",
             "format_context (and the closure it returns)", "to_string", "format_update_with",
             "lena.context.update_context.UpdateContext.__init__/__call__",
             "lena.context.elements.DeleteContext.__init__/__call__"]
STUBS = ["jinja2.Template compiled/rendered outside the tracer on realised arguments "
         "(verif.stubs.untraced.FastTemplate); json.dumps is a C boundary: dictionaries given "
         "to to_string are concrete on every path (selected by symbolic indices)"]
ASSUMPTIONS = ["jinja2 behaves as documented", "leaves come from {1, 'b'} (+ {2, 3, 'x', None} "
               "for to_string, where Python == and JSON equality coincide)"]
OUTSIDE = ["jinja2 filter syntax", "non-string keys", "templates of more than SEG fields",
           "strings longer than SLEN"]


def build(ka, kaa, kab, kb):
    d = {}
    if ka == 1:
        d["a"] = 1
    elif ka == 2:
        d["a"] = "b"
    elif ka == 3:
        sub = {}
        if kaa == 1:
            sub["a"] = 1
        elif kaa == 2:
            sub["a"] = "b"
        elif kaa == 3:
            sub["a"] = {"a": 1}
        elif kaa == 4:
            sub["a"] = None
        if kab == 1:
            sub["b"] = 1
        elif kab == 2:
            sub["b"] = {"a": 1}
        d["a"] = sub
    if kb == 1:
        d["b"] = 1
    elif kb == 2:
        d["b"] = {"a": 1}
    elif kb == 3:
        d["b"] = None
    return d


_MISSING = object()


def ref_get(d, keys):
    cur = d
    for i, k in enumerate(keys):
        if not isinstance(cur, dict) or k not in cur:
            return _MISSING
        cur = cur[k]
    return cur


def ref_contains(d, s):
    levels = s.split(".")
    if len(levels) < 2:
        return s in d
    cur = d
    for k in levels[:-1]:
        if not isinstance(cur, dict) or k not in cur:
            return False
        cur = cur[k]
    if isinstance(cur, dict):
        return levels[-1] in cur
    return str(cur) == levels[-1]


def nested_keys(keys):
    """One-key-per-level dictionary notation of a key list."""
    if len(keys) == 1:
        return {keys[0]: None}
    cur = keys[-1]
    for k in reversed(keys[:-1]):
        cur = {k: cur}
    return cur


def check_roundtrip(p: int) -> bool:
    """
    pre: 0 <= p < B.NPATH
    post: _
    """
    s = PATHS[p]
    v = object()
    if s == "":
        try:
            str_to_dict(s, v)
            return h.ok(False)
        except LenaValueError:
            return h.ok(str_to_dict("") == {} and str_to_list("") == [])
    keys = s.split(".")
    d = str_to_dict(s, v)
    if not (get_recursively(d, s) is v and get_recursively(d, list(keys)) is v
            and get_recursively(d, nested_keys(keys)) is v):
        return h.ok(False)
    if str_to_list(s) != keys:
        return h.ok(False)
    # exactly one key per level, nothing else
    cur = d
    for k in keys[:-1]:
        if list(cur) != [k]:
            return h.ok(False)
        cur = cur[k]
    if list(cur) != [keys[-1]]:
        return h.ok(False)
    # the string-only form: the last component is the value
    if len(keys) >= 2:
        d2 = str_to_dict(s)
        if get_recursively(d2, keys[:-1]) != keys[-1]:
            return h.ok(False)
    else:
        try:
            str_to_dict(s)
            return h.ok(False)
        except LenaValueError:
            pass
    return h.ok(contains(d, s))


def check_lookup(ka: int, kaa: int, kab: int, kb: int, p: int) -> bool:
    """
    pre: 0 <= ka <= 3 and 0 <= kaa <= 4 and 0 <= kab <= 2 and 0 <= kb <= 3
    pre: 0 <= p < B.NPATH
    pre: h.in_shard(p)
    post: _
    """
    d = build(ka, kaa, kab, kb)
    snap = copy.deepcopy(d)
    s = PATHS[p]
    keys = s.split(".") if s else []
    want = ref_get(d, keys)
    default = object()
    forms = [s, list(keys)]
    if keys:
        forms.append(nested_keys(keys))
    for form in forms:
        try:
            got = get_recursively(d, form)
        except LenaKeyError:
            got = _MISSING
        if got is not want:
            return h.ok(False)
        gd = get_recursively(d, form, default)
        if want is _MISSING:
            if gd is not default:
                return h.ok(False)
        elif gd is not want:
            return h.ok(False)
    if d != snap:
        return h.ok(False)
    if s == "":
        return h.ok(True)
    # contains agrees with the documented lookup and never raises
    return h.ok(contains(d, s) == ref_contains(d, s))


_CTX = [{"a": 0}, {"a": {"b": 1}, "b": "x"}, {}]


def _str_get(s, c):
    try:
        get_recursively(_CTX[c], s)
    except LenaKeyError:
        pass
    get_recursively(_CTX[c], s, None)
    return bool(True)


def hunt_str_get(s: str, c: int) -> bool:
    """
    pre: len(s) <= B.SLEN
    pre: 0 <= c <= 2
    post: _
    """
    return h.ok(_str_get(s, c))


def _str_contains(s, c):
    r = contains(_CTX[c], s)
    return bool(r is True or r is False)


def hunt_str_contains(s: str, c: int) -> bool:
    """
    pre: len(s) <= B.SLEN
    pre: 0 <= c <= 2
    post: _
    """
    return h.ok(_str_contains(s, c))


def _str_to_dict(s, with_value):
    try:
        d = str_to_dict(s, 5) if with_value else str_to_dict(s)
    except LenaValueError:
        d = None
    lst = str_to_list(s)
    if d is not None and s != "" and with_value:
        if get_recursively(d, lst) != 5:
            return bool(False)
    return bool(isinstance(lst, list))


def hunt_str_to_dict(s: str, with_value: bool) -> bool:
    """
    pre: len(s) <= B.SLEN
    post: _
    """
    return h.ok(_str_to_dict(s, with_value))


def _str_format(s, c):
    try:
        f = format_context(s)
    except LenaValueError:
        return bool(True)
    try:
        r = f(_CTX[c])
    except (LenaKeyError, ValueError):
        # documented: missing key; "string formatting can also raise ValueError"
        return bool(True)
    return bool(isinstance(r, str))


def hunt_str_format(s: str, c: int) -> bool:
    """
    pre: len(s) <= B.SLEN + 1
    pre: 0 <= c <= 2
    post: _
    """
    return h.ok(_str_format(s, c))


def _str_elements(s, which, c):
    ctx = copy.deepcopy(_CTX[c])
    val = (7, ctx)
    if which == 0:
        try:
            el = UpdateContext(s, 5)
        except LenaValueError:
            return bool(s == "")
        r = el(val)
        return bool(r[0] == 7)
    if which == 1:
        el = DeleteContext(s)
        r = el(val)
        return bool(r[0] == 7)
    try:
        format_update_with(s, 5, ctx)
    except LenaValueError:
        return bool(s == "")
    return bool(True)


def hunt_str_elements(s: str, which: int, c: int) -> bool:
    """
    pre: len(s) <= B.SLEN
    pre: 0 <= which <= 2
    pre: 0 <= c <= 2
    post: _
    """
    return h.ok(_str_elements(s, which, c))


ALPHA = ["a", ".", "{", "}", ":", "b", "!"]


def _mk(n, i0, i1, i2, i3):
    return "".join([ALPHA[i] for i in [i0, i1, i2, i3][:n]])


def check_alpha_strings(n: int, i0: int, i1: int, i2: int, i3: int, which: int, c: int) -> bool:
    """
    pre: 0 <= n <= B.SLEN
    pre: 0 <= i0 < B.NALPHA and 0 <= i1 < B.NALPHA and 0 <= i2 < B.NALPHA and 0 <= i3 < B.NALPHA
    pre: 0 <= which <= 4
    pre: 0 <= c <= 2
    pre: h.in_shard(which + 5 * c)
    post: _
    """
    # every string over ALPHA: only the documented exceptions
    s = _mk(n, i0, i1, i2, i3)
    if which == 0:
        return h.ok(_str_get(s, c))
    if which == 1:
        return h.ok(_str_contains(s, c))
    if which == 2:
        return h.ok(_str_to_dict(s, c == 0))
    if which == 3:
        return h.ok(_str_format(s, c))
    return h.ok(_str_elements(s, c, 1))


def check_bad_types(which: int, k: int) -> bool:
    """
    pre: 0 <= which <= 5
    pre: 0 <= k <= 3
    post: _
    """
    # malformed (non-string / non-dict) arguments: LenaTypeError/LenaValueError only
    bad = [5, None, 2.5, ("a",)][k]
    try:
        if which == 0:
            get_recursively({"a": 1}, bad)
        elif which == 1:
            get_recursively(bad, "a")
        elif which == 2:
            format_context(bad)
        elif which == 3:
            UpdateContext(bad, 1)
        elif which == 4:
            get_recursively({"a": 1}, ["a", bad])
        else:
            get_recursively({"a": 1}, {"a": 1, "b": 2})
            return h.ok(False)
    except (LenaTypeError, LenaValueError):
        return h.ok(True)
    # a tuple of strings is not documented as accepted but is harmless
    return h.ok(False)


SEGS = ["x", "{{a}}", "{{a.a}}", "{{b}}", "_", "{{a.b}}", "{{c}}"]
SEGPATH = [None, "a", "a.a", "b", None, "a.b", "c"]


def check_format_render(ka: int, kaa: int, kab: int, kb: int, n: int,
                        s0: int, s1: int, s2: int) -> bool:
    """
    pre: 0 <= ka <= 3 and 0 <= kaa <= 4 and kaa != 3 and 0 <= kab <= 1 and 0 <= kb <= 3 and kb != 2
    pre: 0 <= n <= B.SEG
    pre: 0 <= s0 <= 6 and 0 <= s1 <= 6 and 0 <= s2 <= 6
    pre: n <= 2 or B.SEG3FREE == 1 or (ka >= 2 and kaa == 2 and kab == 1 and kb == 1)
    pre: h.in_shard(s0 + 7 * (ka % 2))
    post: _
    """
    d = build(ka, kaa, kab, kb)
    segs = [s0, s1, s2][:n]
    template = "".join([SEGS[i] for i in segs])
    want = ""
    missing = False
    for i in segs:
        if SEGPATH[i] is None:
            want += SEGS[i]
        else:
            v = ref_get(d, SEGPATH[i].split("."))
            if v is _MISSING:
                missing = True
                break
            want += str(v)
    f = format_context(template)
    snap = copy.deepcopy(d)
    try:
        got = f(d)
    except LenaKeyError:
        return h.ok(missing and d == snap)
    return h.ok((not missing) and got == want and d == snap)


_LEAVES = [2, 3, "x", None]


def _ts_dict(code, order):
    """Dictionary number *code*; *order* permutes the insertion order."""
    items = []
    nl = 2 if B.TS == 36 else 4
    ka = code % 3
    code //= 3
    la = _LEAVES[code % nl]
    code //= nl
    kb = code % 3
    code //= 3
    lb = _LEAVES[code % nl]
    if ka == 1:
        items.append(("a", la))
    elif ka == 2:
        sub = [("x", la), ("y", 2)]
        if order >= 2:
            sub.reverse()
        items.append(("a", dict(sub)))
    if kb == 1:
        items.append(("b", lb))
    elif kb == 2:
        items.append(("b", {"a": lb}))
    if order % 2:
        items.reverse()
    return dict(items)


def check_to_string(c1: int, c2: int, o1: int, o2: int) -> bool:
    """
    pre: 0 <= c1 < B.TS and 0 <= c2 < B.TS
    pre: 0 <= o1 <= 3 and o2 == 0
    pre: h.in_shard(c1)
    post: _
    """
    d1, d2 = _ts_dict(c1, o1), _ts_dict(c2, o2)
    same = to_string(d1) == to_string(d2)
    return h.ok(same == (d1 == d2))


UPDATES = [7, {"x": 1}, "{{a.a}}", "{{b}}", "{{a.a}}_y", "lit", "x{{a}}", "{{a.b}}_{{c}}"]


def _ref_put(ctx, keys, update, recursively):
    """Expected context after an update of ctx at keys."""
    exp = copy.deepcopy(ctx)
    sub = exp
    for k in keys[:-1]:
        if k not in sub or not isinstance(sub[k], dict):
            sub[k] = {}
        sub = sub[k]
    last = keys[-1]
    if recursively and isinstance(update, dict) and isinstance(sub.get(last), dict):
        def upd(d, o):
            for k in o:
                if isinstance(o[k], dict) and isinstance(d.get(k), dict):
                    upd(d[k], o[k])
                else:
                    d[k] = copy.deepcopy(o[k])
        upd(sub[last], update)
    else:
        sub[last] = copy.deepcopy(update)
    return exp


def _render(template, ctx):
    """Reference rendering for the templates in UPDATES (missing -> '')."""
    out = template
    missing = False
    for field in ("a.a", "a.b", "a", "b", "c"):
        tok = "{{" + field + "}}"
        if tok in out:
            v = ref_get(ctx, field.split("."))
            if v is _MISSING:
                missing = True
                v = ""
            out = out.replace(tok, str(v))
    return out, missing


def check_update_context(ka: int, kaa: int, kab: int, kb: int, sub: int, u: int,
                         value: bool, dflt: int, skip: bool, rais: bool,
                         recursively: bool, with_ctx: bool) -> bool:
    """
    pre: 0 <= ka <= 3 and 0 <= kaa <= B.UKAA + 1 and 0 <= kab <= 1 and (0 <= kb <= B.UKB or kb == 3)
    pre: 0 <= sub < B.NSUB
    pre: 0 <= u <= 7
    pre: 0 <= dflt <= 2
    pre: (0 if dflt == 0 else 1) + (1 if skip else 0) + (1 if rais else 0) <= 1
    pre: h.in_shard(u + 8 * (ka % 2) + 5 * sub)
    post: _
    """
    # (combinations of more than one of default / skip_on_missing /
    # raise_on_missing are rejected at construction: check_update_context_args)
    subcontext = ["a.b", "b", "c.a", "a", "a.a", "b.a"][sub]
    update = UPDATES[u]
    value = True if value else False
    skip = True if skip else False
    rais = True if rais else False
    recursively = True if recursively else False
    kwargs = dict(value=value, skip_on_missing=skip, raise_on_missing=rais,
                  recursively=recursively)
    has_default = dflt > 0
    default = [None, 9, {"z": 1}][dflt]
    if dflt == 2:
        default = {"z": 1}
    if has_default:
        kwargs["default"] = default
    n_active = int(has_default) + int(skip) + int(rais)
    simple = not isinstance(update, str)
    is_ctx_value = (not simple) and value and update in ("{{a.a}}", "{{b}}")
    invalid = (n_active > 1 or (simple and n_active > 0)
               or ((not simple) and value and not is_ctx_value)
               or ((not simple) and (not value) and has_default))
    with fast_jinja():
        try:
            el = UpdateContext(subcontext, update, **kwargs)
        except LenaValueError:
            return h.ok(invalid)
        if invalid:
            return h.ok(False)
        ctx = build(ka, kaa, kab, kb)
        snap = copy.deepcopy(ctx)
        data = object()
        val = (data, ctx) if with_ctx else data
        if not with_ctx:
            snap = {}
        keys = subcontext.split(".")
        try:
            res = el(val)
        except LenaKeyError:
            # only a missing key with raise_on_missing (explicit, or implied
            # for a context value without default/skip)
            if simple:
                return h.ok(False)
            if is_ctx_value:
                src = ref_get(snap, update[2:-2].split("."))
                return h.ok(src is _MISSING and not has_default and not skip)
            return h.ok(rais and _render(update, snap)[1])
    # what the update value must have been
    if simple:
        new = update
    elif is_ctx_value:
        src = ref_get(snap, update[2:-2].split("."))
        if src is _MISSING:
            if has_default:
                new = default
            elif skip:
                return h.ok(res is val and (not with_ctx or ctx == snap))
            else:
                return h.ok(False)
        else:
            new = src
    else:
        new, missing = _render(update, snap)
        if missing and rais:
            return h.ok(False)
        if missing and skip:
            return h.ok(res is val and (not with_ctx or ctx == snap))
    if not (isinstance(res, tuple) and len(res) == 2 and res[0] is data):
        return h.ok(False)
    got = res[1]
    if got != _ref_put(snap, keys, new, recursively):
        return h.ok(False)
    # a context value is deeply copied: mutating it leaves its source alone
    if is_ctx_value and isinstance(new, dict):
        item = ref_get(got, keys)
        srcnow = ref_get(got, update[2:-2].split("."))
        if item is srcnow and keys != update[2:-2].split("."):
            return h.ok(False)
    # the default value is not shared with the context either
    if is_ctx_value and has_default and isinstance(default, dict) and src is _MISSING:
        item = ref_get(got, keys)
        if item is default:
            return h.ok(False)
        item["__p__"] = 1
        if default != {"z": 1}:
            return h.ok(False)
    # a simple dictionary value is copied too: the element can be reused
    if simple and isinstance(update, dict):
        ref_get(got, keys)["__p__"] = 1
        if UPDATES[u] != {"x": 1}:
            return h.ok(False)
    return h.ok(True)


def check_update_context_args(sub: int, u: int, value: bool, dflt: int, skip: bool, rais: bool,
                              recursively: bool) -> bool:
    """
    pre: 0 <= sub <= 5
    pre: 0 <= u <= 7
    pre: 0 <= dflt <= 2
    post: _
    """
    # which keyword combinations UpdateContext accepts (documented
    # LenaValueError otherwise), for every update value and subcontext
    subcontext = ["a.b", "b", "c.a", "a", "a.a", "b.a"][sub]
    update = UPDATES[u]
    value = True if value else False
    skip = True if skip else False
    rais = True if rais else False
    kwargs = dict(value=value, skip_on_missing=skip, raise_on_missing=rais,
                  recursively=True if recursively else False)
    has_default = dflt > 0
    if has_default:
        kwargs["default"] = [None, 9, {"z": 1}][dflt]
    n_active = int(has_default) + int(skip) + int(rais)
    simple = not isinstance(update, str)
    is_ctx_value = (not simple) and value and update in ("{{a.a}}", "{{b}}")
    invalid = (n_active > 1 or (simple and n_active > 0)
               or ((not simple) and value and not is_ctx_value)
               or ((not simple) and (not value) and has_default))
    with fast_jinja():
        try:
            UpdateContext(subcontext, update, **kwargs)
        except LenaValueError:
            return h.ok(invalid)
    return h.ok(not invalid)


def check_delete_context(ka: int, kaa: int, kab: int, kb: int, p: int, form: int,
                         with_ctx: bool) -> bool:
    """
    pre: 0 <= ka <= 3 and 0 <= kaa <= 3 and 0 <= kab <= 2 and 0 <= kb <= 2
    pre: 0 <= p < B.NPATH
    pre: 0 <= form <= 2
    pre: h.in_shard(p)
    post: _
    """
    s = PATHS[p]
    if s == "" and h.kf("C08-delete-empty-key"):
        return True
    keys = s.split(".") if s else []
    ctx = build(ka, kaa, kab, kb)
    snap = copy.deepcopy(ctx)
    key = [s, list(keys), tuple(keys)][form]
    el = DeleteContext(key)
    data = object()
    val = (data, ctx) if with_ctx else data
    res = el(val)
    if with_ctx:
        if not (res[0] is data):
            return h.ok(False)
        got = res[1]
    else:
        return h.ok(res is data)
    if not keys:
        return h.ok(got == snap or got == {})
    exp = copy.deepcopy(snap)
    parent = ref_get(exp, keys[:-1])
    if isinstance(parent, dict) and keys[-1] in parent:
        del parent[keys[-1]]
    return h.ok(got == exp)


def check_format_update_with(ka: int, kaa: int, kab: int, kb: int, sub: int, u: int) -> bool:
    """
    pre: 0 <= ka <= 3 and 0 <= kaa <= 3 and 0 <= kab <= 1 and 0 <= kb <= 2
    pre: 0 <= sub <= 5
    pre: 0 <= u <= 7
    pre: h.in_shard(u)
    post: _
    """
    key = ["a", "b", "a.a", "a.b", "b.a", "c.a"][sub]
    value = UPDATES[u]
    d = build(ka, kaa, kab, kb)
    snap = copy.deepcopy(d)
    try:
        format_update_with(key, value, d)
    except LenaKeyError:
        if not isinstance(value, str):
            return h.ok(False)
        return h.ok(_render(value, snap)[1] and d == snap)
    if isinstance(value, str) and "{" in value:
        new, missing = _render(value, snap)
        if missing:
            return h.ok(False)
    else:
        new = value
    # update_recursively semantics at every level of the key
    o = new
    for k in reversed(key.split(".")):
        o = {k: o}
    exp = copy.deepcopy(snap)

    def upd(dd, oo):
        for k in oo:
            if isinstance(oo[k], dict) and isinstance(dd.get(k), dict):
                upd(dd[k], oo[k])
            else:
                dd[k] = copy.deepcopy(oo[k])
    upd(exp, o)
    return h.ok(d == exp)


CONDITIONS = [
    dict(fn="check_roundtrip", budget=(60, 200), smoke=["check_roundtrip(3)", "check_roundtrip(9)",
                                                         "check_roundtrip(0)"]),
    dict(fn="check_lookup", shards=(4, 16), budget=(70, 600),
         smoke=["check_lookup(3, 1, 1, 1, 2)", "check_lookup(1, 0, 0, 0, 2)", "check_lookup(3, 3, 0, 0, 5)"]),
    dict(fn="hunt_str_get", kind="bughunt", no_twin=True, budget=(45, 400), smoke=["hunt_str_get('a.b', 1)"]),
    dict(fn="hunt_str_contains", kind="bughunt", no_twin=True, budget=(45, 400), smoke=["hunt_str_contains('a.b', 1)"]),
    dict(fn="hunt_str_to_dict", kind="bughunt", no_twin=True, budget=(45, 400), smoke=["hunt_str_to_dict('a.b', True)"]),
    dict(fn="hunt_str_format", kind="bughunt", no_twin=True, budget=(45, 400), smoke=["hunt_str_format('{{a}}', 0)"]),
    dict(fn="hunt_str_elements", kind="bughunt", no_twin=True, budget=(45, 400), smoke=["hunt_str_elements('a.b', 0, 1)",
                                                            "hunt_str_elements('a.b', 1, 1)"]),
    dict(fn="check_alpha_strings", shards=(15, 15), budget=(70, 900),
         smoke=["check_alpha_strings(3, 2, 2, 0, 0, 3, 0)", "check_alpha_strings(4, 3, 3, 2, 2, 3, 0)"]),
    dict(fn="check_bad_types", budget=(60, 200), smoke=["check_bad_types(0, 0)", "check_bad_types(3, 1)"]),
    dict(fn="check_format_render", shards=(7, 14), budget=(70, 900),
         smoke=["check_format_render(3, 1, 1, 1, 2, 1, 0, 0)", "check_format_render(1, 0, 0, 0, 2, 2, 0, 0)"]),
    dict(fn="check_to_string", shards=(4, 16), budget=(60, 900),
         smoke=["check_to_string(5, 5, 0, 1)", "check_to_string(5, 6, 0, 0)"]),
    dict(fn="check_update_context", shards=(16, 16), budget=(220, 1500),
         smoke=["check_update_context(3, 1, 1, 1, 3, 0, False, 0, False, False, True, True)",
                "check_update_context(3, 3, 1, 1, 1, 2, True, 0, False, False, True, True)",
                "check_update_context(3, 1, 1, 1, 1, 4, False, 0, False, False, True, True)",
                "check_update_context(0, 0, 0, 0, 1, 4, False, 0, False, True, True, False)"]),
    dict(fn="check_update_context_args", budget=(180, 400),
         smoke=["check_update_context_args(0, 4, False, 1, True, False, True)",
                "check_update_context_args(1, 2, True, 2, False, False, True)"]),
    dict(fn="check_delete_context", shards=(4, 16), budget=(70, 900),
         smoke=["check_delete_context(3, 1, 1, 1, 2, 0, True)", "check_delete_context(3, 1, 1, 1, 7, 1, True)"]),
    dict(fn="check_format_update_with", shards=(4, 8), budget=(70, 900),
         smoke=["check_format_update_with(3, 1, 1, 1, 1, 2)", "check_format_update_with(3, 1, 1, 1, 5, 0)"]),
]
