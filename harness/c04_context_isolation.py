"""C04 - context non-interference between Split/Zip branches and across
accumulators."""
import copy
from typing import List

import lena.core
import lena.flow
import lena.context
from lena.core import Split, Sequence, FillComputeSeq
from lena.flow import Count, StoreFilled, Zip, get_data_context
from lena.context import UpdateContext
from lena.math import Sum, DSum, Mean, VarianceMeanCount, Vectorize
from lena.output import MakeFilename
from lena.structures import Histogram, SplitIntoBins
from lena.variables import Variable

from verif import h
from verif.stubs.untraced import fast_jinja
from harness.c06_histogram import cut

PROPERTY = "C04"
B = h.bounds(
    quick=dict(FLOW=3, BUF=3, HIST=4, SRC=1, SFLOW=2, SBUF=2),
    thorough=dict(FLOW=3, BUF=3, HIST=5, SRC=3, SFLOW=3, SBUF=3),
)
BRANCHES = ["user mutator (data list + context in place)", "Variable", "UpdateContext", "MakeFilename",
            "fill/compute: (mutator, StoreFilled)", "fill/compute: (Count as FillInto, StoreFilled)",
            "fill/compute that stops mid-buffer: (mutator, Slice(1), StoreFilled)",
            "(UpdateContext(p, {{missing}}, default=<one dict shared by all such branches>), in-place updates of p)",
            "(<one typed Variable object shared by all such branches>, in-place updates of context.variable)"]
ACCS = ["Sum", "DSum", "Mean", "VarianceMeanCount", "Vectorize(Sum,2)", "Count", "Histogram",
        "SplitIntoBins(Sum, Variable, [0,1,2])", "Vectorize of components yielding two results per compute"]
BOUNDS = dict(vars(B), branches=BRANCHES, accumulators=ACCS, meaning="pairs of branches from "
              "`branches` in a Split (run with bufsize 1..BUF, fill+compute) or Zip, flows of <= FLOW "
              "values ([x], {'a': {'b': x}, 'l': [x]}) without aliasing; accumulator histories of <= "
              "HIST operations over {fill (context chosen), compute then poison what was yielded}")
FUNCTIONS = ["Split.run", "Split._fill", "Split._compute", "Zip._fill", "Zip._compute",
             "compute() of Sum, DSum, Mean, VarianceMeanCount, Vectorize, Count, Histogram, SplitIntoBins",
             "Variable.__call__", "UpdateContext.__call__", "MakeFilename.__call__", "Count.fill_into"]
STUBS = ["jinja2 untraced", "get_bin_on_value_1d cut to the linear scan (C06 layer K)"]
ASSUMPTIONS = ["flows have no pre-existing aliasing (statement)",
               "an accumulator mutating the context of the value it was filled with (Count.compute) is "
               "outside the statement, which speaks about what is yielded"]
OUTSIDE = ["copy_buf=False", "more than two branches (quick)", "Graph element"]


class Mut(object):
    """User mutator: changes data and context in place."""

    def __init__(self, tag):
        self.tag = tag

    def __call__(self, v):
        data, ctx = v
        data.append(self.tag)
        ctx["m"] = self.tag
        ctx["a"]["b"] = ctx["a"]["b"] + 1
        ctx["l"].append(self.tag)
        return v


def _first(d):
    return d[0]


class Mut2(object):
    """Appends to the list found in context.variable.rng (in place)."""

    def __init__(self, tag):
        self.tag = tag

    def __call__(self, v):
        data, ctx = v
        ctx["variable"]["rng"].append(self.tag)
        return v


_SHARED = [None]


_SHARED_VAR = [None]


def make_branch(kind, t):
    if kind == 8:
        # the very same Variable object (created with a type, so that its
        # description is nested) serves every branch of this kind; each branch
        # then updates the description it received in place
        if _SHARED_VAR[0] is None:
            _SHARED_VAR[0] = Variable("sv", _first, type="coord", unit="u", rng=[0, 1])
        return (_SHARED_VAR[0], UpdateContext("variable.coord.unit", t), Mut2(t))
    if kind == 7:
        # every branch of this kind was given the *same* default object by the
        # user; the first element inserts it where the key is missing, the
        # second one updates it in place
        if _SHARED[0] is None:
            _SHARED[0] = {"c": 0, "n": {"m": [0]}}
        return (UpdateContext("p", "{{nokey}}", value=True, default=_SHARED[0]),
                UpdateContext("p.c", t), UpdateContext("p.n.m", t))
    if kind == 0:
        return (Mut(t),)
    if kind == 1:
        return (Variable("v%d" % t, _first),)
    if kind == 2:
        return (UpdateContext("a.c", t),)
    if kind == 3:
        return (MakeFilename("f%d" % t),)
    if kind == 4:
        return (Mut(t), StoreFilled())
    if kind == 6:
        # mutates in place, then stops in the middle of a buffer
        return (Mut(t), lena.flow.Slice(1), StoreFilled())
    return (Count("cnt%d" % t), StoreFilled())


def mkflow(xs):
    return [([x], {"a": {"b": x}, "l": [x]}) for x in xs]


def alone(kind, t, flow, bufsize):
    """What the branch computes alone on a private deep copy of the flow,
    block by block (sequence branches) / at the end (fill/compute)."""
    flow = copy.deepcopy(flow)
    _SHARED[0] = None            # the reference branch has a default of its own
    _SHARED_VAR[0] = None        # ... and a Variable of its own
    br = make_branch(kind, t)
    _SHARED[0] = None
    _SHARED_VAR[0] = None
    if kind >= 4 and kind not in (7, 8):
        fcs = FillComputeSeq(*br)
        for v in flow:
            try:
                fcs.fill(v)
            except lena.core.LenaStopFill:
                break
        return [], list(fcs.compute())
    seq = Sequence(*br)
    blocks = []
    for i in range(0, len(flow), bufsize):
        blocks.append(list(seq.run(iter(flow[i:i + bufsize]))))
    if not flow:
        blocks.append(list(seq.run(iter([]))))
    return blocks, []


def _sig(v):
    """Concrete shape of a value (integers masked): a cheap pre-filter, so
    that symbolic equality is only asked of candidates of the same shape."""
    if isinstance(v, dict):
        return tuple([(k, _sig(v[k])) for k in sorted(v)])
    if isinstance(v, (list, tuple)):
        return (type(v).__name__, tuple([_sig(x) for x in v]))
    if isinstance(v, str):
        return v
    if isinstance(v, int):
        return "i"
    return type(v).__name__


def same_multiset(got, want):
    if len(got) != len(want):
        return False
    rest = [(_sig(g), g) for g in got]
    for w in want:
        sw = _sig(w)
        for j in range(len(rest)):
            if rest[j][0] == sw and rest[j][1] == w:
                del rest[j]
                break
        else:
            return False
    return True


class _SrcGen(object):
    def __call__(self):
        yield ("from source", {"s": 1})


def check_split_run(k0: int, k1: int, k2: int, src: int, bufsize: int, xs: List[int]) -> bool:
    """
    pre: 0 <= k0 <= 8 and 0 <= k1 <= 8 and -1 <= k2 <= 1
    pre: -1 <= src <= B.SRC
    pre: 1 <= bufsize <= B.SBUF
    pre: len(xs) <= B.SFLOW
    pre: h.in_shard(k0 + 9 * (k1 % 4) + 36 * (src + 1))
    post: _
    """
    _SHARED[0] = None
    _SHARED_VAR[0] = None
    k0 = h.concrete(k0, 0, 8)
    k1 = h.concrete(k1, 0, 8)
    k2 = h.concrete(k2, -1, 1)       # optional third branch: none | mutator | Variable
    kinds = [k0, k1] + ([k2] if k2 >= 0 else [])
    # optional Source branch at position src (a Source reads nothing from the
    # flow and yields its own values the first time it is reached)
    src = h.concrete(src, -1, B.SRC)
    if src > len(kinds):
        src = len(kinds)
    with fast_jinja():
        branches = [make_branch(k, t) for t, k in enumerate(kinds)]
        if src >= 0:
            branches.insert(src, lena.core.Source(_SrcGen()))
        s = Split(branches, bufsize=bufsize)
        got = list(s.run(iter(mkflow(xs))))
        alones = [alone(k, t, mkflow(xs), bufsize) for t, k in enumerate(kinds)]
    if src >= 0:
        # the Source's own output: exactly once, untouched
        mine = [v for v in got if isinstance(v, tuple) and len(v) == 2 and v[0] == "from source"]
        if mine != [("from source", {"s": 1})]:
            return h.ok(False)
        # (where it appears is the schedule, C03's subject)
        got = [v for v in got if not (isinstance(v, tuple) and len(v) == 2 and v[0] == "from source")]
    want = []
    nblocks = max([len(a[0]) for a in alones])
    for i in range(nblocks):
        for blocks, _ in alones:
            if i < len(blocks):
                want += blocks[i]
    for _, comp in alones:
        want += comp
    if 6 in (k0, k1):
        # a stopping branch is finalised inside the block where it stops: only
        # the multiset of results is compared here (the schedule is C03's)
        return h.ok(same_multiset(got, want))
    return h.ok(got == want)


def check_split_fill(k0: int, k1: int, k2: int, zip_: bool, xs: List[int]) -> bool:
    """
    pre: 4 <= k0 <= 5 and 4 <= k1 <= 5 and 3 <= k2 <= 5
    pre: len(xs) <= B.FLOW
    pre: h.in_shard(k2)
    post: _
    """
    # Split / Zip of two or three fill/compute branches driven by fill + compute
    k0 = h.concrete(k0, 4, 5)
    k1 = h.concrete(k1, 4, 5)
    k2 = h.concrete(k2, 3, 5)        # 3: no third branch
    flow = mkflow(xs)
    brs = [make_branch(k0, 0), make_branch(k1, 1)] + ([make_branch(k2, 2)] if k2 >= 4 else [])
    if zip_:
        s = Zip(brs)
    else:
        s = Split(brs)
    for v in flow:
        s.fill(v)
    got = list(s.compute())
    _, c0 = alone(k0, 0, mkflow(xs), 1)
    _, c1 = alone(k1, 1, mkflow(xs), 1)
    c2 = alone(k2, 2, mkflow(xs), 1)[1] if k2 >= 4 else []
    if not zip_:
        return h.ok(got == c0 + c1 + c2)
    if k2 >= 4:
        # three-way Zip: tuples of the i-th results
        if len(got) != min(len(c0), len(c1), len(c2)):
            return h.ok(False)
        for i, g in enumerate(got):
            data, _ = get_data_context(g)
            want = (get_data_context(c0[i])[0], get_data_context(c1[i])[0], get_data_context(c2[i])[0])
            if tuple(data) != want:
                return h.ok(False)
        return h.ok(True)
    # Zip yields tuples of the i-th results; data parts must be the branches'
    # own results
    if len(got) != min(len(c0), len(c1)):
        return h.ok(False)
    for i, g in enumerate(got):
        data, _ = get_data_context(g)
        d0, _ = get_data_context(c0[i])
        d1, _ = get_data_context(c1[i])
        if tuple(data) != (d0, d1):
            return h.ok(False)
    return h.ok(True)


# ---------------------------------------------------------------- accumulators

def _x(v):
    return v


class TwoRes(object):
    """fill/compute component that yields two results per compute()."""

    def __init__(self):
        self.n = 0

    def fill(self, v):
        self.n += 1

    def compute(self):
        yield self.n
        yield -self.n

    def reset(self):
        self.n = 0


def make_acc(kind):
    if kind == 8:
        return Vectorize([TwoRes(), TwoRes()])
    if kind == 9:
        # two histograms per compute(): their contexts must not share anything
        return SplitIntoBins(TwoRes(), Variable("x", _x), [0, 1, 2])
    if kind == 0:
        return Sum()
    if kind == 1:
        return DSum()
    if kind == 2:
        return Mean()
    if kind == 3:
        return VarianceMeanCount(corrected=False)
    if kind == 4:
        return Vectorize(Sum(), dim=2)
    if kind == 5:
        return Count()
    if kind == 6:
        return Histogram([0, 1, 2])
    return SplitIntoBins(Sum(), Variable("x", _x), [0, 1, 2])


def mkval(kind, i, c):
    data = (i, i + 1) if kind in (4, 8) else (i % 2)
    ctxs = [{"a": {"b": i}, "l": [i]}, {"a": {"b": i, "c": {"d": [i]}}}, {"z": i}]
    return (data, copy.deepcopy(h.choose(ctxs, c)))


def containers(obj, acc=None):
    """ids of every dict/list reachable from obj."""
    if acc is None:
        acc = {}
    if isinstance(obj, dict):
        acc[id(obj)] = obj
        for v in obj.values():
            containers(v, acc)
    elif isinstance(obj, (list, tuple)):
        if isinstance(obj, list):
            acc[id(obj)] = obj
        for v in obj:
            containers(v, acc)
    return acc


def poison(obj):
    if isinstance(obj, dict):
        for v in list(obj.values()):
            poison(v)
        obj["__poison__"] = 1
    elif isinstance(obj, list):
        for v in obj:
            poison(v)
        obj.append("__poison__")


def ctx_of(results):
    return [get_data_context(r)[1] for r in results]


def check_accumulator(kind: int, ops: List[int], cs: List[int]) -> bool:
    """
    pre: 0 <= kind <= 9
    pre: 1 <= len(ops) <= B.HIST
    pre: len(cs) == len(ops)
    pre: h.in_shard(kind + 10 * (len(ops) % 2))
    post: _
    """
    kind = h.concrete(kind, 0, 9)
    with cut():
        el = make_acc(kind)
        twin = make_acc(kind)        # same fills, never poisoned
        filled = []                  # the very values given to el
        snaps = []
        yielded = []                 # contexts yielded earlier (poisoned)
        nfill = 0
        for i in range(len(ops)):
            fill = True if ops[i] <= 0 else False
            if fill:
                c = 0 if cs[i] <= 0 else (1 if cs[i] == 1 else 2)
                v = mkval(kind, nfill, c)
                filled.append(v)
                snaps.append(copy.deepcopy(v))
                el.fill(v)
                twin.fill(mkval(kind, nfill, c))
                nfill += 1
                continue
            if nfill == 0:
                continue
            res = list(el.compute())
            ref = list(twin.compute())
            got_ctx = ctx_of(res)
            # equal to the unpoisoned twin's contexts
            if got_ctx != ctx_of(ref):
                return h.ok(False)
            # shares no mutable object with a filled context nor an earlier yield
            mine = {}
            for cx in got_ctx:
                containers(cx, mine)
            # ... nor do two contexts yielded by the same compute() share one
            if sum([len(containers(cx)) for cx in got_ctx]) != len(mine):
                return h.ok(False)
            for v in filled:
                for oid in containers(v[1]):
                    if oid in mine:
                        return h.ok(False)
            for y in yielded:
                for oid in containers(y):
                    if oid in mine:
                        return h.ok(False)
            # downstream in-place updates corrupt nothing
            for cx in got_ctx:
                poison(cx)
            yielded.append(got_ctx)
            for v, s in zip(filled, snaps):
                if kind == 5:
                    # Count.compute documents updating the last filled context
                    vc = dict(v[1])
                    vc.pop("count", None)
                    if vc != s[1]:
                        return h.ok(False)
                elif v[1] != s[1]:
                    return h.ok(False)
    return h.ok(True)


CONDITIONS = [
    dict(fn="check_split_run", shards=(54, 180), budget=(120, 600),
         smoke=["check_split_run(0, 1, -1, -1, 1, [3, 4])", "check_split_run(4, 0, -1, -1, 2, [3, 4])",
                "check_split_run(5, 3, 0, -1, 2, [3])", "check_split_run(2, 2, -1, -1, 1, [])", "check_split_run(6, 0, 1, -1, 2, [3, 4])",
                "check_split_run(6, 4, 0, -1, 2, [3, 4])", "check_split_run(7, 7, -1, -1, 1, [3, 4])", "check_split_run(0, 1, -1, 0, 1, [3, 4])",
                "check_split_run(0, 0, 1, 1, 1, [3, 4])", "check_split_run(1, 0, -1, 1, 1, [3, 4])", "check_split_run(0, 2, -1, 1, 2, [])"]),
    dict(fn="check_split_fill", shards=(3, 3), budget=(120, 600),
         smoke=["check_split_fill(4, 5, 3, False, [3, 4])", "check_split_fill(4, 4, 3, True, [3, 4])",
                "check_split_fill(4, 5, 4, False, [3, 4])", "check_split_fill(4, 4, 5, True, [3, 4])"]),
    dict(fn="check_accumulator", shards=(20, 20), budget=(190, 1500),
         smoke=["check_accumulator(0, [0, 1, 0, 1], [0, 0, 1, 0])", "check_accumulator(5, [0, 1, 1], [1, 0, 0])",
                "check_accumulator(7, [0, 0, 1], [0, 1, 0])", "check_accumulator(4, [0, 1], [2, 0])",
                "check_accumulator(1, [0, 1], [2, 0])", "check_accumulator(2, [0, 1], [2, 0])", "check_accumulator(8, [0, 1, 1], [0, 0, 0])"]),
]
