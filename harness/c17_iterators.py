"""C17 - flow iterators equal their Python reference (Slice is list slicing)."""
import itertools
from typing import List

import lena.core
import lena.flow
from lena.flow.iterators import Slice, Reverse, Chain, CountFrom
from lena.flow.elements import RunningChunkBy

from verif import h
from verif.stubs.pydeque import patched_deque

PROPERTY = "C17"
B = h.bounds(
    quick=dict(S=4, STEP=2, N=6, CHUNK=3, CN=5, CF=3),
    thorough=dict(S=7, STEP=4, N=10, CHUNK=5, CN=7, CF=6),
)
BOUNDS = dict(vars(B), meaning="start, stop in {None} U [-S, S]; step in {None} U [1, STEP] "
              "(plus the rejected steps 0, -1, -2); flow length <= N; chunk size <= CHUNK "
              "over flows <= CN; CountFrom start/step in [-CF, CF], first 4 values")
FUNCTIONS = ["lena.flow.iterators.Slice.__init__", "Slice.run", "Slice._run_negative_islice",
             "Slice.fill_into", "Reverse.run", "Chain.__call__", "CountFrom.__call__",
             "lena.flow.elements.RunningChunkBy.__init__", "RunningChunkBy.run"]
STUBS = ["collections.deque -> verif.stubs.pydeque.PyDeque (pure-Python model)"]
ASSUMPTIONS = ["itertools.islice / itertools.count / itertools.chain (C code) behave as "
               "documented on the concrete arguments the engine realises for them",
               "flow values are opaque to these iterators: positions 0..n-1 stand for any values"]
OUTSIDE = ["|start|,|stop| > S, step > STEP, flows longer than N",
           "several runs of one Slice object (documented todo)"]

NONE = 99  # sentinel for None in the integer encodings below


def _dec(v):
    return None if v == NONE else v


def _mk_args(start, stop, step, form):
    if form == 2 and start is None and step is None:
        return (stop,)
    if form >= 1 and step is None:
        return (start, stop)
    return (start, stop, step)


def _values(n, none_at):
    """Flow of n distinct values; position none_at (if inside) holds None -
    a legitimate value that must not be mistaken for the end of the flow."""
    xs = list(range(n))
    if 0 <= none_at < n:
        xs[none_at] = None
    return xs


def check_slice_run(start: int, stop: int, step: int, n: int, none_at: int) -> bool:
    """
    pre: (-B.S <= start <= B.S) or start == NONE
    pre: (-B.S <= stop <= B.S) or stop == NONE
    pre: (1 <= step <= B.STEP) or step == NONE
    pre: 0 <= n <= B.N
    pre: none_at == n % 3 - 1
    pre: h.in_shard(2 * ((start + B.S + 1) if start != NONE else 0) + (stop + B.S) % 2)
    post: _
    """
    # (none_at is tied to the length: flows of length 0, 3, 6.. hold no None,
    # the others hold None at position 0 or 1)
    a, b, c = _dec(start), _dec(stop), _dec(step)
    xs = _values(n, none_at)
    with patched_deque():
        s = Slice(*_mk_args(a, b, c, 2))
        got = list(s.run(iter(xs)))
    return h.ok(got == xs[a:b:c])


def check_slice_forms(start: int, stop: int, step: int, n: int, form: int) -> bool:
    """
    pre: (-2 <= start <= 2) or start == NONE
    pre: (-2 <= stop <= 2) or stop == NONE
    pre: (1 <= step <= 2) or step == NONE
    pre: 0 <= n <= 3
    pre: 0 <= form <= 1
    pre: h.in_shard((start + 3) if start != NONE else 0)
    post: _
    """
    # the longer spellings Slice(None, stop), Slice(start, stop, None)
    a, b, c = _dec(start), _dec(stop), _dec(step)
    xs = list(range(n))
    with patched_deque():
        s = Slice(*_mk_args(a, b, c, form))
        got = list(s.run(iter(xs)))
    return h.ok(got == xs[a:b:c])


def check_slice_bad_step(start: int, stop: int, step: int) -> bool:
    """
    pre: (-B.S <= start <= B.S) or start == NONE
    pre: (-B.S <= stop <= B.S) or stop == NONE
    pre: -2 <= step <= 0
    post: _
    """
    a, b = _dec(start), _dec(stop)
    try:
        Slice(a, b, step)
    except lena.core.LenaValueError:
        return h.ok(True)
    return h.ok(False)


class _Collect(object):
    def __init__(self):
        self.got = []

    def fill(self, value):
        self.got.append(value)


def check_slice_fill_into(start: int, stop: int, step: int, n: int) -> bool:
    """
    pre: (0 <= start <= B.S) or start == NONE
    pre: (0 <= stop <= B.S) or stop == NONE
    pre: (1 <= step <= B.STEP) or step == NONE
    pre: 0 <= n <= B.N
    pre: h.in_shard((start + 1) if start != NONE else 0)
    post: _
    """
    a, b, c = _dec(start), _dec(stop), _dec(step)
    xs = list(range(n))
    s = Slice(*_mk_args(a, b, c, 2))
    el = _Collect()
    stopped = None
    for i in xs:
        # a caller may go on offering values after a LenaStopFill: the stop is
        # final, nothing offered later may be filled
        try:
            s.fill_into(el, i)
        except lena.core.LenaStopFill:
            if stopped is None:
                stopped = i
    want = xs[a:b:c]
    if el.got != want:
        return h.ok(False)
    if stopped is not None:
        # no index >= stopped may belong to the slice of ANY longer flow
        if b is None:
            return h.ok(False)
        later = [j for j in range(a or 0, b, c or 1) if j >= stopped]
        return h.ok(later == [])
    return h.ok(True)


def check_reverse(xs: List[int]) -> bool:
    """
    pre: len(xs) <= B.N
    post: _
    """
    el = Reverse()
    got = list(el.run(iter(xs)))
    again = list(el.run(iter(xs)))
    return h.ok(got == list(reversed(xs)) and again == got)


def check_chain(a: List[int], b: List[int], c: List[int], k: int) -> bool:
    """
    pre: len(a) <= 3 and len(b) <= 3 and len(c) <= 2
    pre: 0 <= k <= 3
    post: _
    """
    its = [a, b, c][:k]
    ch = Chain(*its)
    got = list(ch())
    again = list(ch())
    return h.ok(got == list(itertools.chain(*its)) and again == got)


def check_count_from(a: int, d: int, k: int) -> bool:
    """
    pre: -B.CF <= a <= B.CF and -B.CF <= d <= B.CF
    pre: 0 <= k <= 4
    post: _
    """
    cf = CountFrom(a, d)
    got = list(itertools.islice(cf(), k))
    # every call starts a new count (like a new itertools.count)
    again = list(itertools.islice(cf(), k))
    want = [a + i * d for i in range(k)]
    return h.ok(got == want and again == want)


def _star(*args):
    return list(args)


def check_running_chunk(xs: List[int], size: int, kind: int) -> bool:
    """
    pre: len(xs) <= B.CN
    pre: 1 <= size <= B.CHUNK
    pre: 0 <= kind <= 2
    post: _
    """
    with patched_deque():
        if kind == 0:
            el, conv = RunningChunkBy(size), tuple
        elif kind == 1:
            el, conv = RunningChunkBy(size, list, from_iterable=True), list
        else:
            el, conv = RunningChunkBy(size, _star), list
        got = list(el.run(xs))
    want = [conv(xs[i:i + size]) for i in range(len(xs) - size + 1)]
    return h.ok(got == want)


CONDITIONS = [
    dict(fn="check_slice_run", shards=(20, 32), budget=(80, 1200),
         smoke=["check_slice_run(-2, -1, 99, 3, -1)", "check_slice_run(99, 2, 99, 4, 0)",
                "check_slice_run(-3, 2, 2, 5, 1)", "check_slice_run(99, -2, 99, 5, 1)"]),
    dict(fn="check_slice_forms", shards=(3, 6), budget=(60, 200),
         smoke=["check_slice_forms(99, 2, 99, 3, 0)", "check_slice_forms(1, -1, 99, 3, 1)"]),
    dict(fn="check_slice_bad_step", budget=(40, 120), smoke=["check_slice_bad_step(1, 2, 0)"]),
    dict(fn="check_slice_fill_into", shards=(6, 9), budget=(60, 600),
         smoke=["check_slice_fill_into(1, 3, 2, 5)"]),
    dict(fn="check_reverse", budget=(40, 200), smoke=["check_reverse([1, 2, 3])"]),
    dict(fn="check_chain", budget=(40, 200), smoke=["check_chain([1], [2, 3], [], 3)"]),
    dict(fn="check_count_from", budget=(40, 300), smoke=["check_count_from(2, -1, 3)"]),
    dict(fn="check_running_chunk", budget=(60, 600),
         smoke=["check_running_chunk([1, 2, 3, 4], 2, 0)", "check_running_chunk([1, 2, 3], 2, 2)"]),
]
