"""C14 - variables compose like functions and keep each variable's description."""
import copy

import lena.core
from lena.core import Sequence
from lena.variables import Variable, Compose, Combine

from verif import h

PROPERTY = "C14"
B = h.bounds(
    quick=dict(CHAIN=4, COMB=4),
    thorough=dict(CHAIN=5, COMB=4),
)
BOUNDS = dict(vars(B), meaning="chains of 1..CHAIN distinct variables out of a pool of 5 (pairwise "
              "distinct non-empty types, extra attributes incl. nested ones), in every order; Combine "
              "of 1..COMB; symbolic integer data; values bare or with a pre-existing context "
              "(unrelated key, untyped context.variable, typed context.variable); applied twice")
FUNCTIONS = ["lena.variables.variable.Variable.__init__/__call__/_update_context/__getattr__",
             "Compose.__init__", "Combine.__init__", "Sequence.run over variables"]
STUBS = []
ASSUMPTIONS = ["getters are the pool's integer functions"]
OUTSIDE = ["variables with equal or empty types (excluded by the statement)", "chains longer than CHAIN"]


def _g0(x):
    return x + 1


def _g1(x):
    return x + x


def _g2(x):
    return x - 3


def _g3(x):
    return x + 7


def _g4(x):
    return -x


GETTERS = [_g0, _g1, _g2, _g3, _g4]
ATTRS = [
    dict(name="a", type="t0", unit="u0"),
    dict(name="b", type="t1", latex_name="B"),
    dict(name="c", type="t2"),
    dict(name="d", type="t3", range=[0, 1]),
    dict(name="e", type="t4", unit="u4", extra={"n": 1}),
]


def pool():
    return [Variable(getter=GETTERS[i], **ATTRS[i]) for i in range(5)]


def pick(n, c0, c1, c2, c3, c4):
    """n distinct pool indices from a Lehmer code (no rejection)."""
    rest = [0, 1, 2, 3, 4]
    out = []
    for c in [c0, c1, c2, c3, c4][:n]:
        out.append(rest.pop(h.concrete(c, 0, len(rest) - 1)))
    return out


PRE = [None, {"other": 1}, {"variable": {"name": "old"}},
       {"variable": {"name": "old", "type": "told", "told": {"name": "old"}}, "k": {"z": 2}}]


def mkval(x, p):
    ctx = h.choose(PRE, p)
    if ctx is None:
        return x
    return (x, copy.deepcopy(ctx))


def own_attrs(i):
    d = dict(ATTRS[i])
    d.pop("type")
    return d


def check_compose(n: int, c0: int, c1: int, c2: int, c3: int, c4: int, x: int, p: int) -> bool:
    """
    pre: 1 <= n <= B.CHAIN
    pre: 0 <= c0 <= 4 and 0 <= c1 <= 3 and 0 <= c2 <= 2 and 0 <= c3 <= 1 and c4 == 0
    pre: 0 <= p <= 3
    pre: h.in_shard(c0 + 5 * p)
    post: _
    """
    n = h.concrete(n, 1, B.CHAIN)
    idx = pick(n, c0, c1, c2, c3, c4)
    vs_all = pool()
    vs = [vs_all[i] for i in idx]
    snaps = [copy.deepcopy(v.var_context) for v in vs]
    comp = Compose(*vs)
    r1 = comp(mkval(x, p))
    seq = list(Sequence(*vs).run(iter([mkval(x, p)])))
    if len(seq) != 1 or r1 != seq[0]:
        return h.ok(False)
    data, ctx = r1
    want = x
    for i in idx:
        want = GETTERS[i](want)
    if data != want:
        return h.ok(False)
    var = ctx["variable"]
    last = idx[-1]
    # name and attributes of the resulting (last) variable
    for k, v in own_attrs(last).items():
        if var.get(k) != v:
            return h.ok(False)
    if var.get("type") != ATTRS[last]["type"]:
        return h.ok(False)
    # the attributes of every composed variable stay available under its type
    for i in idx:
        if var.get(ATTRS[i]["type"]) != own_attrs(i):
            return h.ok(False)
    types = [ATTRS[i]["type"] for i in idx]
    pre = h.choose(PRE, p)
    if pre and "type" in pre.get("variable", {}):
        types = ["told"] + types
        if var.get("told") != {"name": "old"}:
            return h.ok(False)
    if len(types) > 1:
        if var.get("compose") != types:
            return h.ok(False)
    elif "compose" in var:
        return h.ok(False)
    # nothing but context.variable changed
    rest = dict(ctx)
    rest.pop("variable")
    prest = dict(pre) if pre else {}
    prest.pop("variable", None)
    if rest != prest:
        return h.ok(False)
    # the variables themselves are unchanged, repeated application is equal
    r2 = comp(mkval(x, p))
    seq2 = list(Sequence(*vs).run(iter([mkval(x, p)])))
    if r2 != r1 or seq2 != seq:
        return h.ok(False)
    ctx["variable"]["__poison__"] = 1
    for v, s in zip(vs, snaps):
        if v.var_context != s:
            return h.ok(False)
    r3 = comp(mkval(x, p))
    r3[1]["variable"].pop("__poison__", None)
    ctx["variable"].pop("__poison__")
    return h.ok(r3 == r1 and comp.name == ATTRS[last]["name"])


def check_nested(n: int, c0: int, c1: int, c2: int, c3: int, x: int, p: int, form: int) -> bool:
    """
    pre: 2 <= n <= 3
    pre: 0 <= c0 <= 4 and 0 <= c1 <= 3 and 0 <= c2 <= 2 and 0 <= c3 <= 1
    pre: 0 <= p <= 3
    pre: 0 <= form <= 2
    pre: h.in_shard(c0 + 5 * form)
    post: _
    """
    # a composition used as one element of a Sequence / of another Compose
    # is the same function as the flat chain, however often it is applied
    n = h.concrete(n, 2, 3)
    idx = pick(n + 1, c0, c1, c2, c3, 0)
    vs_all = pool()
    vs = [vs_all[i] for i in idx]
    inner = Compose(*vs[:n])
    snap_inner = copy.deepcopy(inner.var_context)
    snaps = [copy.deepcopy(v.var_context) for v in vs]
    flat = list(Sequence(*vs).run(iter([mkval(x, p)])))[0]
    tail = Compose(*vs[1:]) if form == 2 else None
    for _ in range(2):
        if form == 0:
            got = list(Sequence(inner, vs[n]).run(iter([mkval(x, p)])))[0]
        elif form == 1:
            got = Compose(inner, vs[n])(mkval(x, p))
        else:
            # a composition applied after another typed variable
            got = list(Sequence(vs[0], tail).run(iter([mkval(x, p)])))[0]
        if got != flat:
            return h.ok(False)
        if inner.var_context != snap_inner:
            return h.ok(False)
    for v, s in zip(vs, snaps):
        if v.var_context != s:
            return h.ok(False)
    return h.ok(True)


def check_combine(n: int, c0: int, c1: int, c2: int, c3: int, x: int, p: int) -> bool:
    """
    pre: 1 <= n <= B.COMB
    pre: 0 <= c0 <= 4 and 0 <= c1 <= 3 and 0 <= c2 <= 2 and 0 <= c3 <= 1
    pre: 0 <= p <= 3
    pre: h.in_shard(c0)
    post: _
    """
    n = h.concrete(n, 1, B.COMB)
    idx = pick(n, c0, c1, c2, c3, 0)
    vs_all = pool()
    vs = [vs_all[i] for i in idx]
    snaps = [copy.deepcopy(v.var_context) for v in vs]
    comb = Combine(*vs)
    r1 = comb(mkval(x, p))
    data, ctx = r1
    if data != tuple([GETTERS[i](x) for i in idx]):
        return h.ok(False)
    var = ctx["variable"]
    if var.get("name") != "_".join([ATTRS[i]["name"] for i in idx]) or var.get("dim") != n:
        return h.ok(False)
    if tuple(var.get("combine", ())) != tuple(snaps):
        return h.ok(False)
    pre = h.choose(PRE, p)
    rest = dict(ctx)
    rest.pop("variable")
    prest = dict(pre) if pre else {}
    prest.pop("variable", None)
    if rest != prest:
        return h.ok(False)
    var["combine"][0]["__poison__"] = 1
    r2 = comb(mkval(x, p))
    for v, s in zip(vs, snaps):
        if v.var_context != s:
            return h.ok(False)
    var["combine"][0].pop("__poison__")
    return h.ok(r2 == r1 and comb.dim == n and comb[0] is vs[0])


def check_bad_args(which: int) -> bool:
    """
    pre: 0 <= which <= 4
    post: _
    """
    vs = pool()
    try:
        if which == 0:
            Compose()
        elif which == 1:
            Compose(vs[0], 5)
        elif which == 2:
            Combine()
        elif which == 3:
            Combine(vs[0], _g0)
        else:
            Variable("v", vs[0])
    except lena.core.LenaTypeError:
        return h.ok(True)
    return h.ok(False)


CONDITIONS = [
    dict(fn="check_compose", shards=(20, 20), budget=(80, 1500),
         smoke=["check_compose(2, 1, 0, 0, 0, 0, 5, 0)", "check_compose(3, 4, 3, 2, 0, 0, 5, 3)",
                "check_compose(1, 2, 0, 0, 0, 0, 5, 2)"]),
    dict(fn="check_nested", shards=(15, 15), budget=(120, 900),
         smoke=["check_nested(2, 0, 0, 0, 0, 5, 0, 0)", "check_nested(2, 4, 3, 2, 0, 5, 3, 1)", "check_nested(3, 0, 0, 0, 0, 5, 3, 2)"]),
    dict(fn="check_combine", shards=(5, 5), budget=(80, 900),
         smoke=["check_combine(2, 1, 0, 0, 0, 5, 0)", "check_combine(3, 4, 3, 2, 0, 5, 3)"]),
    dict(fn="check_bad_args", budget=(40, 100), smoke=["check_bad_args(1)"]),
]
