"""C01 - Sequence and Source compute the left-to-right composition of their
elements; bracketing-independent; empty Sequence is the identity; ill-typed
arguments are rejected at construction."""
from typing import List

import lena.core
import lena.flow
from lena.core import Sequence, Source, Split, LenaTypeError
from lena.flow import Filter, Slice, Count, RunIf, Reverse, End, StoreFilled, get_data_context
from lena.math import Sum
from lena.variables import Variable

from verif import h
from verif.stubs.pydeque import patched_deque

PROPERTY = "C01"
B = h.bounds(
    quick=dict(LEN=2, FLOW=2, NK=18, BUF=2, FREECTX=0),
    thorough=dict(LEN=3, FLOW=3, NK=18, BUF=3, FREECTX=1),
)
KINDS = ["callable add3", "Variable x2", "Filter even", "Slice(1,3)", "Slice(2)", "Slice(-1)",
         "Slice(None,None,2)", "Count", "RunIf(positive, add3)", "Reverse", "End", "Sum (fill/compute)",
         "StoreFilled", "Split([add3, add10], bufsize)", "nested Sequence(add3, Slice(2))",
         "callable with a non-callable run attribute",
         "RunIf(positive, Slice(-1)) - the only inner element has a run method (reference: the inner "
         "element run on each selected value alone)", "RunIf(positive, Reverse(), add3)"]
BOUNDS = dict(vars(B), kinds=KINDS, meaning="element lists of length 0..LEN over `kinds`; flows of "
              "<= FLOW symbolic ints, bare or (data, context); 6 forms: flat, left-nested, "
              "right-nested, every element wrapped, Source with an iterable "
              "first element, Source with a callable first element; Split bufsize 1..BUF; with FREECTX=0 (quick) the context mode is tied to the parity of the kinds and non-flat forms are checked for every second kind pair")
FUNCTIONS = ["lena.core.sequence.Sequence.__init__/run", "lena.core.source.Source.__init__/__call__",
             "lena.core.lena_sequence.LenaSequence.__init__", "lena.core.adapters.Run (_call_run, _fc_run)",
             "lena.core.meta.flatten", "lena.core.functions.flow_to_iter", "Split.run (as an element)"]
STUBS = ["collections.deque -> PyDeque (negative Slice)"]
ASSUMPTIONS = ["elements come from the listed vocabulary, a fresh instance per use"]
OUTSIDE = ["user elements beyond the vocabulary", "infinite flows (C02)", "lists longer than LEN"]


def add3(v):
    d, c = get_data_context(v)
    if isinstance(v, tuple) and len(v) == 2 and isinstance(v[1], dict):
        return (d + 3, c)
    return d + 3


def add10(v):
    d, c = get_data_context(v)
    if isinstance(v, tuple) and len(v) == 2 and isinstance(v[1], dict):
        return (d + 10, c)
    return d + 10


def _dbl(x):
    return x + x


def _even(v):
    d, _ = get_data_context(v)
    return True if d % 2 == 0 else False


def _positive(v):
    d, _ = get_data_context(v)
    return True if d > 0 else False


class _CallableWithRunStub(object):
    """A plain callable that carries a non-callable `run` attribute."""
    run = None

    def __call__(self, v):
        return add3(v)


class _RunNotCallable(object):
    """Not an element: its `run` attribute exists but is not callable."""
    run = None


class _FillNotCallable(object):
    fill = 5
    compute = None


def make(kind, bufsize):
    if kind == 15:
        return _CallableWithRunStub()
    if kind == 16:
        el = RunIf(_positive, Slice(-1))
        el._ref_inner = lambda: [Slice(-1)]
        return el
    if kind == 17:
        el = RunIf(_positive, Reverse(), add3)
        el._ref_inner = lambda: [Reverse(), add3]
        return el
    if kind == 0:
        return add3
    if kind == 1:
        return Variable("x2", _dbl)
    if kind == 2:
        return Filter(_even)
    if kind == 3:
        return Slice(1, 3)
    if kind == 4:
        return Slice(2)
    if kind == 5:
        return Slice(-1)
    if kind == 6:
        return Slice(None, None, 2)
    if kind == 7:
        return Count()
    if kind == 8:
        return RunIf(_positive, add3)
    if kind == 9:
        return Reverse()
    if kind == 10:
        return End()
    if kind == 11:
        return Sum()
    if kind == 12:
        return StoreFilled()
    if kind == 13:
        return Split([add3, add10], bufsize=bufsize)
    return Sequence(add3, Slice(2))


def alone(el, ys):
    """One element's own stream transformation, without Sequence/Source/Run."""
    if hasattr(el, "_ref_inner"):
        # RunIf, from its documentation: the inner elements are run on each
        # selected value alone, every other value passes
        out = []
        for y in ys:
            if _positive(y):
                zs = [y]
                for inner in el._ref_inner():
                    zs = alone(inner, zs)
                out += zs
            else:
                out.append(y)
        return out
    if hasattr(el, "run") and callable(el.run):
        return list(el.run(iter(ys)))
    if callable(el):
        return [el(y) for y in ys]
    for y in ys:
        el.fill(y)
    return list(el.compute())


def mkflow(xs, with_ctx):
    if with_ctx:
        return [(x, {"k": i}) for i, x in enumerate(xs)]
    return list(xs)


class _Gen(object):
    def __init__(self, vals):
        self.vals = vals

    def __call__(self):
        for v in self.vals:
            yield v


def check_compose(n: int, k0: int, k1: int, k2: int, form: int, bufsize: int,
                  xs: List[int], with_ctx: bool) -> bool:
    """
    pre: 0 <= n <= B.LEN
    pre: 0 <= k0 < B.NK and 0 <= k1 < B.NK and 0 <= k2 < B.NK
    pre: 0 <= form <= 5
    pre: 1 <= bufsize <= B.BUF
    pre: len(xs) <= B.FLOW
    pre: h.in_shard(k0 + B.NK * form)
    pre: B.FREECTX == 1 or with_ctx == ((k0 + k1) % 2 == 0)
    pre: B.FREECTX == 1 or form == 0 or (k0 + k1 + form) % 2 == 0
    post: _
    """
    kinds = [k0, k1, k2][:n]
    with patched_deque():
        # reference: manual left-to-right composition on fresh elements
        try:
            ys = mkflow(xs, with_ctx)
            for k in kinds:
                ys = alone(make(k, bufsize), ys)
            want = ("ok", ys)
        except (TypeError, lena.core.LenaZeroDivisionError) as e:
            # an element rejects what the previous one produced (e.g. a
            # number added to a StoreFilled group): the pipeline must fail
            # the same way
            want = ("raises", type(e).__name__)
        els = [make(k, bufsize) for k in kinds]
        flow = mkflow(xs, with_ctx)
        try:
            if form == 0:
                got = list(Sequence(*els).run(iter(flow)))
            elif form == 1:
                seq = Sequence(*els[:1])
                for e in els[1:]:
                    seq = Sequence(seq, e)
                got = list(seq.run(iter(flow)))
            elif form == 2:
                if els:
                    seq = Sequence(els[-1])
                    for e in reversed(els[:-1]):
                        seq = Sequence(e, seq)
                else:
                    seq = Sequence()
                got = list(seq.run(iter(flow)))
            elif form == 3:
                got = list(Sequence(*[Sequence(e) for e in els]).run(iter(flow)))
            elif form == 4:
                got = list(Source(flow, *els)()) if els else list(Source(_Gen(flow))())
            else:
                got = list(Source(_Gen(flow), *els)())
            got = ("ok", got)
        except (TypeError, lena.core.LenaZeroDivisionError) as e:
            got = ("raises", type(e).__name__)
    return h.ok(got == want)


STATELESS = (0, 1, 2, 3, 4, 5, 6, 8, 9, 10, 15, 16, 17)


def check_reuse(n: int, k0: int, k1: int, form: int, xs: List[int], with_ctx: bool) -> bool:
    """
    pre: 1 <= n <= 2
    pre: 0 <= k0 < B.NK and 0 <= k1 < B.NK
    pre: 0 <= form <= 3
    pre: len(xs) <= B.FLOW
    pre: h.in_shard(k0)
    post: _
    """
    # the same Sequence / Source object used again, and a nested Sequence used
    # on its own after it was nested, still compute the same composition
    # (elements without state of their own)
    kinds = [h.concrete(k, 0, B.NK - 1) for k in [k0, k1][:n]]
    for k in kinds:
        if k not in STATELESS:
            return True
    with patched_deque():
        want = mkflow(xs, with_ctx)
        for k in kinds:
            want = alone(make(k, 1), want)
        els = [make(k, 1) for k in kinds]
        if form == 0:
            seq = Sequence(*els)
            a = list(seq.run(iter(mkflow(xs, with_ctx))))
            b = list(seq.run(iter(mkflow(xs, with_ctx))))
            return h.ok(a == want and b == want)
        if form == 1:
            src = Source(mkflow(xs, with_ctx), *els)
            a = list(src())
            b = list(src())
            return h.ok(a == want and b == want)
        if form == 2:
            src = Source(_Gen(mkflow(xs, with_ctx)), *els)
            a = list(src())
            b = list(src())
            return h.ok(a == want and b == want)
        # a Sequence nested first in another one keeps its own meaning
        inner = Sequence(els[0])
        outer = Sequence(inner, *els[1:])
        a = list(outer.run(iter(mkflow(xs, with_ctx))))
        inner_want = alone(make(kinds[0], 1), mkflow(xs, with_ctx))
        b = list(inner.run(iter(mkflow(xs, with_ctx))))
        c = list(Source(_Gen(mkflow(xs, with_ctx)), inner, *els[1:])())
        d = list(inner.run(iter(mkflow(xs, with_ctx))))
        return h.ok(a == want and b == inner_want and c == want and d == inner_want)


BAD = [5, None, "s", object(), [1], 2.5, _RunNotCallable(), _FillNotCallable()]


def check_bad_element(n: int, k0: int, k1: int, pos: int, bad: int, src: bool) -> bool:
    """
    pre: 0 <= n <= 2
    pre: 0 <= k0 < B.NK and k1 == 7
    pre: h.in_shard(k0)
    pre: 0 <= pos <= n
    pre: 0 <= bad <= 7
    post: _
    """
    els = [make(k, 1) for k in [k0, k1][:n]]
    els.insert(pos, BAD[bad])
    try:
        if src:
            Source(_Gen([1]), *els)
        else:
            Sequence(*els)
    except LenaTypeError:
        return h.ok(True)
    return h.ok(False)


def _with_empty(kinds, pos, shape):
    # shape: 0 Sequence with Sequence(), 1 Sequence with Sequence(Sequence()),
    # 2 Source tail with Sequence(), 3 the prefix up to and including the
    # empty Sequence() regrouped into a nested Sequence
    els = [make(k, 1) for k in kinds]
    els.insert(pos, Sequence(Sequence()) if shape == 1 else Sequence())
    return els


def check_empty_nested(n: int, k0: int, k1: int, pos: int, shape: int,
                       xs: List[int], with_ctx: bool) -> bool:
    """
    pre: 0 <= n <= 2
    pre: 0 <= k0 < B.NK and 0 <= k1 < B.NK
    pre: 0 <= pos <= n
    pre: 0 <= shape <= 3
    pre: len(xs) <= 2
    pre: B.FREECTX == 1 or k1 == 0 or k1 == 11
    pre: B.FREECTX == 1 or with_ctx == ((k0 + pos) % 2 == 0)
    pre: h.in_shard(k0)
    post: _
    """
    # "an empty Sequence is the identity" also when it is one of the elements:
    # Sequence() (or Sequence(Sequence())) inserted at any position changes
    # nothing
    kinds = [k0, k1][:n]
    with patched_deque():
        try:
            ys = mkflow(xs, with_ctx)
            for k in kinds:
                ys = alone(make(k, 1), ys)
            want = ("ok", ys)
        except (TypeError, lena.core.LenaZeroDivisionError) as e:
            want = ("raises", type(e).__name__)
        els = _with_empty(kinds, pos, shape)
        flow = mkflow(xs, with_ctx)
        try:
            if shape <= 1:
                got = list(Sequence(*els).run(iter(flow)))
            elif shape == 2:
                got = list(Source(_Gen(flow), *els)())
            else:
                got = list(Sequence(Sequence(*els[:pos + 1]), *els[pos + 1:]).run(iter(flow)))
            got = ("ok", got)
        except (TypeError, lena.core.LenaZeroDivisionError) as e:
            got = ("raises", type(e).__name__)
    return h.ok(got == want)


def check_empty_nested_bad(n: int, k0: int, k1: int, pos: int, shape: int, bad: int) -> bool:
    """
    pre: 0 <= n <= 2
    pre: 0 <= k0 < B.NK and (k1 == 0 or k1 == 11)
    pre: 0 <= pos <= n
    pre: 0 <= shape <= 2
    pre: 0 <= bad <= 7
    pre: h.in_shard(k0)
    post: _
    """
    # an argument that is not an element is rejected at construction also
    # right after an empty nested Sequence
    els = _with_empty([k0, k1][:n], pos, shape)
    els.insert(pos + 1, BAD[h.concrete(bad, 0, 7)])
    try:
        if shape <= 1:
            Sequence(*els)
        else:
            Source(_Gen([1]), *els)
    except LenaTypeError:
        return h.ok(True)
    return h.ok(False)


def check_flatten(n: int, k0: int, k1: int, k2: int, shape: int) -> bool:
    """
    pre: 1 <= n <= 3
    pre: 0 <= k0 <= 12 and k1 == 11 and k2 == 3
    pre: 0 <= shape <= 3
    post: _
    """
    els = [make(k, 1) for k in [k0, k1, k2][:n]]
    if shape == 0:
        seq = Sequence(*els)
    elif shape == 1:
        seq = Sequence(Sequence(*els[:1]), *els[1:])
    elif shape == 2:
        seq = Sequence(*(els[:-1] + [Sequence(els[-1])]))
    else:
        seq = Sequence(Sequence(Sequence(*els)))
    flat = lena.core.flatten(seq)
    flat = list(flat)
    if len(flat) != len(els):
        return h.ok(False)
    return h.ok(all([a is b for a, b in zip(flat, els)]))


CONDITIONS = [
    dict(fn="check_compose", shards=(54, 108), budget=(160, 1500),
         smoke=["check_compose(2, 1, 7, 0, 0, 1, [1, 2], True)", "check_compose(2, 11, 0, 0, 5, 1, [1, 2], False)",
                "check_compose(2, 13, 5, 0, 2, 2, [1, 2], True)", "check_compose(0, 0, 0, 0, 4, 1, [4], False)",
                "check_compose(2, 14, 9, 0, 3, 1, [4, 6], False)"]),
    dict(fn="check_reuse", shards=(18, 18), budget=(140, 600),
         smoke=["check_reuse(2, 0, 4, 0, [1, 2], False)", "check_reuse(2, 1, 2, 1, [1, 2], True)",
                "check_reuse(2, 0, 6, 3, [1, 2, 3], False)", "check_reuse(1, 9, 0, 2, [1, 2], False)"]),
    dict(fn="check_bad_element", shards=(18, 18), budget=(70, 600),
         smoke=["check_bad_element(2, 0, 7, 1, 1, False)", "check_bad_element(0, 0, 7, 0, 2, True)"]),
    dict(fn="check_empty_nested", shards=(18, 18), budget=(150, 900),
         smoke=["check_empty_nested(2, 0, 11, 1, 0, [1, 2], False)", "check_empty_nested(1, 7, 0, 0, 1, [1], False)",
                "check_empty_nested(0, 0, 0, 0, 3, [3], True)", "check_empty_nested(2, 2, 0, 2, 2, [3, 4], True)"]),
    dict(fn="check_empty_nested_bad", shards=(18, 18), budget=(60, 600),
         smoke=["check_empty_nested_bad(1, 0, 0, 0, 0, 0)", "check_empty_nested_bad(2, 7, 11, 2, 2, 6)"]),
    dict(fn="check_flatten", budget=(60, 600), smoke=["check_flatten(3, 0, 11, 3, 1)"]),
]
