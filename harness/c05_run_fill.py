"""C05 - an analysis gives the same result whether driven by run, as a Split
branch, or by explicit fill/compute; adapters preserve the wrapped method."""
from typing import List

import lena.core
import lena.flow
from lena.core import (Sequence, Split, FillComputeSeq, FillSeq, LenaStopFill, LenaTypeError,
                       Call, Run, FillInto, FillCompute, SourceEl)
from lena.flow import Filter, Slice, RunIf, Count, StoreFilled, get_data_context
from lena.math import Sum, Mean, VarianceMeanCount, Vectorize
from lena.structures import Histogram
from lena.variables import Variable

from verif import h
from harness.c06_histogram import cut

PROPERTY = "C05"
B = h.bounds(
    quick=dict(PRE=1, NACC=5, NA=4, FLOW=2, BUF=1, SA=1, SB=2, SC=1, VN=2),
    thorough=dict(PRE=2, NACC=7, NA=5, FLOW=3, BUF=4, SA=2, SB=3, SC=2, VN=3),
)
PRES = ["callable", "Variable", "Filter(even)", "Slice(a, a+b, c)", "RunIf(positive, callable)",
        "RunIf(positive, callable, Slice(1)) - inner sequence depends on the flow it is given",
        "Filter(Selector(predicate raising for negative data, raise_on_error=False))"]
ACCS = ["Sum", "Mean", "FillCompute(Count())", "StoreFilled", "Histogram([0,1,2])",
        "VarianceMeanCount (values from -2..2)", "Vectorize(Sum, dim=2)"]
BOUNDS = dict(vars(B), pres=PRES, accs=ACCS, meaning="chains pre* acc post? with <= PRE pre-elements, "
              "the first NACC accumulators, post in {none, tagging callable}; flows of <= FLOW "
              "symbolic ints; Split bufsize 1..BUF, 1000, None; Slice a<=SA, b<=SB, step<=SC; "
              "adapter x element kind x method-name matrix complete")
FUNCTIONS = ["lena.core.fill_seq.FillSeq.__init__", "fill_seq._Fill.fill",
             "lena.core.fill_compute_seq.FillComputeSeq.__init__/compute",
             "adapters.FillInto.__init__/fill_into/_run_fill_into", "adapters.Run.__init__/_call_run/_fc_run",
             "adapters.Call", "adapters.FillCompute", "adapters.SourceEl", "Filter.fill_into",
             "Slice.fill_into", "RunIf.run", "Split.run (fill_compute branch, LenaStopFill)",
             "Sequence.run"]
STUBS = ["Histogram accumulator: get_bin_on_value_1d cut to the linear-scan reference (C06 layer K)"]
ASSUMPTIONS = ["Count is wrapped in lena.core.FillCompute when an accumulator is meant (it has both "
               "run and fill/compute; Sequence would pick run, Split fill/compute - two different "
               "programs by design)", "VarianceMeanCount values come from -2..2 (x**2 on an unbounded "
               "symbolic int is non-linear)"]
OUTSIDE = ["method-name arguments that are not strings", "Count as a pre-processor",
           "negative Slice arguments (fill_into does not support them)"]


def add3(v):
    d, c = get_data_context(v)
    if isinstance(v, tuple) and len(v) == 2 and isinstance(v[1], dict):
        return (d + 3, c)
    return d + 3


def _dbl(x):
    return x + x


def _even(v):
    return True if get_data_context(v)[0] % 2 == 0 else False


def _positive(v):
    return True if get_data_context(v)[0] > 0 else False


def _positive_or_raise(v):
    d = get_data_context(v)[0]
    if d < 0:
        raise ValueError("negative")
    return True if d > 0 else False


def tag(v):
    return ("post", v)


def _stop_tag(v):
    return ("stopper", 0)


def make_pre(kind, a, b, c):
    if kind == 0:
        return add3
    if kind == 1:
        return Variable("x2", _dbl)
    if kind == 2:
        return Filter(_even)
    if kind == 3:
        return Slice(a, a + b, c)
    if kind == 5:
        return RunIf(_positive, add3, Slice(1))
    if kind == 6:
        # an exception inside the selector counts as "not selected"
        return Filter(lena.flow.Selector(_positive_or_raise, raise_on_error=False))
    return RunIf(_positive, add3)


def _pair(v):
    d, c = get_data_context(v)
    return (d, d + 1)


def make_acc(kind):
    if kind == 0:
        return [Sum()]
    if kind == 1:
        return [Mean()]
    if kind == 2:
        return [FillCompute(Count())]
    if kind == 3:
        return [StoreFilled()]
    if kind == 4:
        return [Histogram([0, 1, 2])]
    if kind == 5:
        return [VarianceMeanCount()]
    return [_pair, Vectorize(Sum(), dim=2)]


def chain(pres, a, b, c, acc, post):
    els = [make_pre(k, a, b, c) for k in pres] + make_acc(acc)
    if post:
        els.append(tag)
    return els


def _norm(vals):
    """Histogram objects compare by bins/edges; keep everything else."""
    out = []
    for v in vals:
        out.append(v)
    return out


def drive(which, els, bufsize, flow):
    try:
        if which == 0:
            return ("ok", _norm(list(Sequence(*els).run(iter(flow)))))
        if which == 1:
            return ("ok", _norm(list(Split([tuple(els)], bufsize=bufsize).run(iter(flow)))))
        if which == 3:
            # the chain as the second branch, after a branch that signals
            # LenaStopFill on the very first value
            stopper = (Slice(0), StoreFilled(), _stop_tag)
            out = list(Split([stopper, tuple(els)], bufsize=bufsize).run(iter(flow)))
            return ("ok", _norm([v for v in out if not (isinstance(v, tuple) and len(v) == 2
                                                        and v[0] == "stopper")]))
        fcs = FillComputeSeq(*els)
        for v in flow:
            try:
                fcs.fill(v)
            except LenaStopFill:
                break
        return ("ok", _norm(list(fcs.compute())))
    except lena.core.LenaZeroDivisionError:
        return ("raises", "LenaZeroDivisionError")


def _bufsize(bs):
    if bs == B.BUF + 1:
        return 1000
    if bs == B.BUF + 2:
        return None
    return bs


def _key3(p0, acc, a, b, post):
    """Shard key: (pre kind, accumulator); chains starting with a Slice (p0 == 3,
    by far the most paths) are split further by the slice start a, length b and the post element."""
    ai = acc - (1 if acc > 1 else 0) - (1 if acc > 5 else 0)
    if p0 == 3:
        return 6 * B.NA + ((ai * (B.SB + 1) + b) * (B.SA + 1) + a) * 2 + (1 if post else 0)
    return (p0 if p0 < 3 else p0 - 1) * B.NA + ai


def check_three_drivers(npre: int, p0: int, p1: int, a: int, b: int, c: int, acc: int,
                        post: bool, bs: int, xs: List[int]) -> bool:
    """
    pre: 0 <= npre <= B.PRE
    pre: 0 <= p0 <= 6 and 0 <= p1 <= 6
    pre: 0 <= a <= B.SA and 0 <= b <= B.SB and 1 <= c <= B.SC
    pre: 0 <= acc < B.NACC and acc != 5 and acc != 1
    pre: 1 <= bs <= B.BUF + 2
    pre: len(xs) <= B.FLOW
    pre: npre < 2 or p0 == 3 or p1 == 3
    pre: h.in_shard(_key3(p0, acc, a, b, post))
    post: _
    """
    pres = [p0, p1][:npre]
    pst = True if post else False
    with cut():
        r0 = drive(0, chain(pres, a, b, c, acc, pst), None, list(xs))
        r1 = drive(1, chain(pres, a, b, c, acc, pst), _bufsize(bs), list(xs))
        r2 = drive(2, chain(pres, a, b, c, acc, pst), None, list(xs))
        r3 = drive(3, chain(pres, a, b, c, acc, pst), _bufsize(bs), list(xs))
    return h.ok(r0 == r1 and r1 == r2 and r2 == r3)


VALS = [-2, -1, 0, 1, 2]


def check_variance_drivers(npre: int, p0: int, a: int, b: int, n: int, i0: int, i1: int, i2: int,
                           bs: int, mean: bool) -> bool:
    """
    pre: 0 <= npre <= 1
    pre: 0 <= p0 <= 4
    pre: a == 0 and 0 <= b <= 2
    pre: 0 <= n <= B.VN
    pre: 0 <= i0 <= 4 and 0 <= i1 <= 4 and 0 <= i2 <= 4
    pre: 1 <= bs <= 2
    pre: h.in_shard(p0 + 5 * (1 if mean else 0))
    post: _
    """
    n = h.concrete(n, 0, 3)
    xs = [h.choose(VALS, i) for i in [i0, i1, i2][:n]]
    pres = [p0][:npre]
    res = []
    for which in range(3):
        try:
            res.append(drive(which, chain(pres, a, b, 1, 1 if mean else 5, False), bs, list(xs)))
        except lena.core.LenaZeroDivisionError:
            res.append(("raises", "zd"))
    return h.ok(res[0] == res[1] and res[1] == res[2])


def check_fill_seq(npre: int, p0: int, p1: int, a: int, b: int, c: int, xs: List[int]) -> bool:
    """
    pre: 0 <= npre <= 2
    pre: 0 <= p0 <= 6 and 0 <= p1 <= 6
    pre: 0 <= a <= B.SA and 0 <= b <= B.SB and 1 <= c <= B.SC
    pre: len(xs) <= B.FLOW + 1
    pre: h.in_shard(p0 + 7 * (p1 % 2))
    post: _
    """
    # an explicit FillSeq fills exactly what the same elements yield when run
    pres = [p0, p1][:npre]
    store = StoreFilled()
    fs = FillSeq(*([make_pre(k, a, b, c) for k in pres] + [store]))
    for v in xs:
        try:
            fs.fill(v)
        except LenaStopFill:
            break
    want = list(Sequence(*[make_pre(k, a, b, c) for k in pres]).run(iter(list(xs))))
    return h.ok(store.group == want)


# ------------------------------------------------------------------ adapters

class ECall(object):
    def __call__(self, *a):
        return ("call", a)


class ERun(object):
    def run(self, flow):
        return ("run", flow)


class EFC(object):
    def fill(self, v):
        return ("fill", v)

    def compute(self):
        return ("compute",)


class EFR(object):
    def fill(self, v):
        return ("fill", v)

    def request(self):
        return ("request",)


class EFI(object):
    def fill_into(self, el, v):
        return ("fill_into", el, v)


class EMy(object):
    def my_call(self, *a):
        return ("my_call", a)

    def my_run(self, flow):
        return ("my_run", flow)

    def my_fill(self, v):
        return ("my_fill", v)

    def my_compute(self):
        return ("my_compute",)

    def my_fill_into(self, el, v):
        return ("my_fill_into", el, v)


class ERunBreak(object):
    _can_break_flow = True

    def run(self, flow):
        for v in flow:
            yield ("rb", v)


class Sink(object):
    def __init__(self):
        self.got = []

    def fill(self, v):
        self.got.append(v)


def make_el(k):
    return [ECall, ERun, EFC, EFR, EFI, EMy, ERunBreak, object][k]() if k < 8 else [1, 2]


def check_adapters(adapter: int, ek: int, name: int, x: int) -> bool:
    """
    pre: 0 <= adapter <= 4
    pre: 0 <= ek <= 8
    pre: 0 <= name <= 2
    post: _
    """
    adapter = h.concrete(adapter, 0, 4)
    ek = h.concrete(ek, 0, 8)
    name = h.concrete(name, 0, 2)
    el = make_el(ek)
    my = {0: "my_call", 1: "my_run", 2: "my_fill_into", 3: "my_fill", 4: "my_call"}[adapter]
    nm = [None, my, "nope"][name]
    try:
        if adapter == 0:
            ad = Call(el) if nm is None else Call(el, call=nm)
        elif adapter == 1:
            ad = Run(el) if nm is None else Run(el, run=nm)
        elif adapter == 2:
            ad = FillInto(el) if nm is None else FillInto(el, fill_into=nm)
        elif adapter == 3:
            ad = FillCompute(el) if nm is None else FillCompute(el, fill=nm, compute="my_compute")
        else:
            ad = SourceEl(el) if nm is None else SourceEl(el, call=nm)
    except LenaTypeError:
        ad = None
    # acceptance table transcribed from the adapter docstrings
    has = lambda m: callable(getattr(el, m, None))
    if nm is not None:
        accept = has(nm) and (adapter != 3 or has("my_compute") or has("request"))
    elif adapter == 0:
        accept = callable(el)
    elif adapter == 1:
        accept = has("run") or callable(el) or (has("fill") and has("compute"))
    elif adapter == 2:
        accept = has("fill_into") or callable(el) or (has("run") and hasattr(el, "_can_break_flow"))
    elif adapter == 3:
        accept = has("fill") and (has("compute") or has("request"))
    else:
        accept = callable(el) or hasattr(el, "__iter__")
    if ad is None:
        return h.ok(not accept)
    if not accept:
        return h.ok(False)
    # the adapter's method means what the wrapped method means
    if adapter == 0:
        want = getattr(el, nm)(x) if nm else el(x)
        return h.ok(ad(x) == want)
    if adapter == 1:
        flow = [x, x + 1]
        if nm:
            return h.ok(ad.run(flow) == getattr(el, nm)(flow))
        if has("run"):
            got = ad.run(flow)
            want = el.run(flow)
            if ek == 6:
                return h.ok(list(got) == list(want))
            return h.ok(got == want)
        if callable(el):
            return h.ok(list(ad.run(flow)) == [el(v) for v in flow])
        return h.ok(ad.run(flow) == ("compute",))
    if adapter == 2:
        sink = Sink()
        if nm:
            return h.ok(ad.fill_into(sink, x) == getattr(el, nm)(sink, x))
        if has("fill_into"):
            return h.ok(ad.fill_into(sink, x) == el.fill_into(sink, x))
        if callable(el):
            ad.fill_into(sink, x)
            return h.ok(sink.got == [el(x)])
        ad.fill_into(sink, x)
        return h.ok(sink.got == [("rb", x)])
    if adapter == 3:
        fill = getattr(el, nm) if nm else el.fill
        comp = getattr(el, "my_compute", None) if nm else getattr(el, "compute", None)
        if not callable(comp):
            comp = el.request
        return h.ok(ad.fill(x) == fill(x) and ad.compute() == comp())
    if nm:
        return h.ok(ad() == getattr(el, nm)())
    if callable(el):
        return h.ok(ad() == el())
    return h.ok(ad() is el)


# ---------------------------------------------------------------- engine R
# the drivers over symbolic real flows (harness/c05_real.py)

def real_drivers(budget):
    from harness import c05_real as cr
    cases = cr.cases(h.TIER)
    mine = [c for i, c in enumerate(cases) if i % h.SHARD_N == h.SHARD_I]
    return cr.run_cases("drivers", mine, budget)


CONDITIONS = [
    dict(fn="real_drivers", custom=True, shards=(2, 4), budget=(60, 600)),
    dict(fn="check_three_drivers", shards=(72, 150), budget=(150, 1200),
         smoke=["check_three_drivers(1, 3, 0, 1, 2, 1, 0, True, 2, [1, 2, 3])",
                "check_three_drivers(1, 1, 0, 0, 0, 1, 2, False, 1, [4, 5])",
                "check_three_drivers(0, 0, 0, 0, 0, 1, 4, True, 3, [0, 2])",
                "check_three_drivers(1, 4, 0, 0, 0, 1, 6, False, 1, [4, -5])",
                "check_three_drivers(1, 5, 0, 0, 0, 1, 3, False, 1, [4, 5])"]),
    dict(fn="check_variance_drivers", shards=(10, 10), budget=(200, 900),
         smoke=["check_variance_drivers(1, 2, 0, 0, 3, 0, 2, 4, 1, False)", "check_variance_drivers(0, 0, 0, 0, 0, 0, 2, 4, 1, True)"]),
    dict(fn="check_fill_seq", shards=(14, 14), budget=(90, 900),
         smoke=["check_fill_seq(2, 3, 2, 1, 2, 1, [1, 2, 3])"]),
    dict(fn="check_adapters", budget=(70, 600),
         smoke=["check_adapters(1, 2, 0, 5)", "check_adapters(2, 6, 0, 5)", "check_adapters(3, 5, 1, 5)",
                "check_adapters(4, 8, 0, 5)", "check_adapters(0, 7, 0, 5)"]),
]
