"""C02 - evaluation is lazy: demand-driven consumption and bounded buffering."""
import builtins
from typing import List

import lena.core
import lena.flow
import lena.context
import lena.output
from lena.core import Sequence, Source, Split
from lena.flow import Filter, Slice, Count, RunIf, Print, get_data_context
from lena.context import Context, UpdateContext
from lena.output import MakeFilename
from lena.variables import Variable

from verif import h
from verif.stubs.pydeque import patched_deque, PyDeque
from verif.stubs.untraced import fast_jinja

PROPERTY = "C02"
B = h.bounds(
    quick=dict(N=3, LEN=2, BUF=3, S=3, K1=4, FREE=0),
    thorough=dict(N=5, LEN=3, BUF=4, S=4, K1=10, FREE=1),
)
KINDS = ["callable", "Variable", "Filter(even)", "Slice(a, a+b)", "Count", "RunIf(positive, callable)",
         "Print", "Context", "UpdateContext", "MakeFilename"]
BOUNDS = dict(vars(B), kinds=KINDS, meaning="pipelines of <= LEN streaming elements over `kinds` "
              "(Slice arguments symbolic in 0..S), input flows of <= N symbolic ints as (data, context) "
              "pairs (and infinite sources), every number k of results the consumer takes; Split "
              "bufsize 1..BUF; negative Slice indices -1..-S")
FUNCTIONS = ["Sequence.run", "adapters.Run._call_run", "Filter.run", "Slice.run",
             "Slice._run_negative_islice", "Count.run", "RunIf.run", "Split.run", "Source.__call__",
             "Print/Context/UpdateContext/MakeFilename.__call__", "functions.flow_to_iter"]
STUBS = ["collections.deque -> PyDeque (records its high-water mark)", "builtin print swallowed",
         "jinja2 untraced"]
ASSUMPTIONS = ["a pull is a value delivered by the instrumented input iterator (the probe that "
               "discovers exhaustion is not a pull)"]
OUTSIDE = ["liveness of values through weak references (object lifetime under a tracer differs "
           "from CPython's): bounded buffering is claimed through pull counts and the deque model",
           "accumulators (Run._fc_run is eager by design and excluded by the statement)"]


class PullBudget(Exception):
    """An 'infinite' feed was pulled far beyond anything the consumer needs:
    stands for a run that would never return."""


class Feed(object):
    """Instrumented input iterator."""

    def __init__(self, values, trace, infinite=False, budget=60):
        self.values = values
        self.trace = trace
        self.i = 0
        self.infinite = infinite
        self.budget = budget

    def __iter__(self):
        return self

    def __next__(self):
        if self.infinite:
            if self.i >= self.budget:
                raise PullBudget()
            v = (self.i, {"i": self.i})
        else:
            if self.i >= len(self.values):
                raise StopIteration
            v = self.values[self.i]
        self.trace.append(("pull", self.i))
        self.i += 1
        return v

    next = __next__

    def __call__(self):
        return self


def add3(v):
    d, c = get_data_context(v)
    return (d + 3, c)


def _dbl(x):
    return x + x


def _even(v):
    return True if get_data_context(v)[0] % 2 == 0 else False


def _positive(v):
    return True if get_data_context(v)[0] > 0 else False


def make(kind, a, b):
    if kind == 0:
        return add3
    if kind == 1:
        return Variable("x2", _dbl)
    if kind == 2:
        return Filter(_even)
    if kind == 3:
        return Slice(a, a + b)
    if kind == 4:
        return Count()
    if kind == 5:
        return RunIf(_positive, add3)
    if kind == 6:
        return Print()
    if kind == 7:
        return Context()
    if kind == 8:
        return UpdateContext("u", 1)
    return MakeFilename("f")


def stage_lists(kinds, a, b, vals):
    """List semantics of each stage on the whole flow: [L0, L1, ...]."""
    lists = [list(vals)]
    for k in kinds:
        cur = lists[-1]
        if k == 2:
            nxt = [v for v in cur if v[0] % 2 == 0]
        elif k == 3:
            nxt = cur[a:a + b]
        elif k in (0, 5):
            nxt = [((v[0] + 3) if (k == 0 or v[0] > 0) else v[0], v[1]) for v in cur]
        elif k == 1:
            nxt = [(v[0] + v[0], v[1]) for v in cur]
        else:
            nxt = list(cur)
        lists.append(nxt)
    return lists


def demand(kinds, a, b, lists, j):
    """Number of input values that determine the first j results.  A stage
    asked for more outputs than it has must discover the end of its input
    (need > len(input) stands for "until exhaustion"); Count documents one
    look-ahead value, which may cost an upstream Filter a scan to its next
    passing value."""
    need = j
    if need == 0:
        return 0
    for s in range(len(kinds) - 1, -1, -1):
        k = kinds[s]
        src = lists[s]
        out = lists[s + 1]
        if k == 2:
            if need > len(out):
                need = len(src) + 1
            else:
                seen = 0
                for i, v in enumerate(src):
                    if v[0] % 2 == 0:
                        seen += 1
                        if seen == need:
                            need = i + 1
                            break
        elif k == 3:
            if need > len(out):
                # islice stops by itself after a+b values
                need = a + b if len(src) >= a + b else len(src) + 1
            else:
                need = a + need
        elif k == 4:
            need = need + 1
        elif need > len(out):
            need = len(src) + 1
    return min(need, len(lists[0]))


def consume(gen, k, trace):
    out = []
    it = iter(gen)
    for _ in range(k):
        try:
            v = next(it)
        except StopIteration:
            break
        trace.append(("got",))
        out.append(v)
    return out


def pulls(trace):
    return len([t for t in trace if t[0] == "pull"])


class quiet(object):
    def __enter__(self):
        self.old = builtins.print
        builtins.print = lambda *a, **k: None

    def __exit__(self, *exc):
        builtins.print = self.old
        return False


def check_demand(n: int, k0: int, k1: int, k2: int, a: int, b: int, xs: List[int], k: int,
                 as_source: bool) -> bool:
    """
    pre: 1 <= n <= B.LEN
    pre: 0 <= k0 <= 9 and 0 <= k1 < B.K1 and 0 <= k2 < B.K1
    pre: 0 <= a <= 1 and 0 <= b <= B.S
    pre: len(xs) <= B.N
    pre: 0 <= k <= len(xs) + 1
    pre: B.FREE == 1 or as_source == ((k0 + k1) % 2 == 0)
    pre: h.in_shard(k0 + 10 * (k1 % 4))
    post: _
    """
    # second/third stage kinds: K1 = 4 means {callable, Filter, Slice, Count}
    sel = [0, 2, 3, 4, 1, 5, 6, 7, 8, 9]
    kinds = [k0, sel[k1], sel[k2]][:n]
    vals = [(x, {"i": i}) for i, x in enumerate(xs)]
    trace = []
    with patched_deque(), fast_jinja(), quiet():
        feed = Feed(vals, trace)
        els = [make(kd, a, b) for kd in kinds]
        if as_source:
            gen_maker = Source(feed, *els)
        else:
            gen_maker = Sequence(*els)
        if pulls(trace) != 0:
            return h.ok(False)           # work done at construction
        gen = gen_maker() if as_source else gen_maker.run(feed)
        if pulls(trace) != 0:
            return h.ok(False)           # work done when run() was called
        lists = stage_lists(kinds, a, b, vals)
        it = iter(gen)
        j = 0
        while j < k:
            try:
                next(it)
            except StopIteration:
                break
            j += 1
            if pulls(trace) > demand(kinds, a, b, lists, j):
                return h.ok(False)
        return h.ok(j == min(k, len(lists[-1])))


def check_infinite(stop: int, pre_kind: int, post_kind: int) -> bool:
    """
    pre: 0 <= stop <= B.S + 2
    pre: 0 <= pre_kind <= 9 and pre_kind != 3 and pre_kind != 4 and pre_kind != 2
    pre: 0 <= post_kind <= 9 and post_kind != 3 and post_kind != 4 and post_kind != 2
    pre: h.in_shard(pre_kind)
    post: _
    """
    # Source(infinite, f, Slice(stop), g) consumed to exhaustion terminates
    trace = []
    with fast_jinja(), quiet():
        feed = Feed([], trace, infinite=True)
        s = Source(feed, make(pre_kind, 0, 0), Slice(stop), make(post_kind, 0, 0))
        try:
            got = list(s())
        except PullBudget:
            return h.ok(False)
    return h.ok(len(got) == stop and pulls(trace) <= stop)


def check_split_blocks(bufsize: int, xs: List[int], k: int, nb: int, filt: bool, explicit: bool) -> bool:
    """
    pre: 1 <= bufsize <= B.BUF
    pre: len(xs) <= B.N
    pre: 0 <= k <= 2 * len(xs) + 1
    pre: 1 <= nb <= 2
    pre: h.in_shard(bufsize - 1 + B.BUF * len(xs))
    post: _
    """
    # the pull of input i >= bufsize happens only after every result of the
    # previous block was handed downstream; never more than bufsize ahead
    vals = [(x, {"i": i}) for i, x in enumerate(xs)]
    trace = []
    branches = [(add3,), (Filter(_even),) if filt else (Variable("x2", _dbl),)][:nb]
    if explicit:
        # branches given as explicit Sequence objects; the first one contains
        # a Count (an element that also has fill/compute): still a streaming,
        # per-block branch
        branches = [Sequence(Count(), add3)] + [Sequence(*br) for br in branches[1:]]
    s = Split(branches, bufsize=bufsize)
    feed = Feed(vals, trace)
    gen = s.run(feed)
    if pulls(trace) != 0:
        return h.ok(False)
    consume(gen, k, trace)
    # results per block in list semantics
    per_block = []
    for i in range(0, len(vals), bufsize):
        block = vals[i:i + bufsize]
        cnt = len(block)
        if nb == 2:
            cnt += len([v for v in block if v[0] % 2 == 0]) if filt else len(block)
        per_block.append(cnt)
    got = 0
    for t in trace:
        if t[0] == "got":
            got += 1
        else:
            i = t[1]
            blk = i // bufsize
            handed = sum(per_block[:blk])
            if got < handed:
                return h.ok(False)       # next block pulled too early
    return h.ok(True)


def check_negative_start_positive_stop(s: int, b: int, n: int, infinite: bool) -> bool:
    """
    pre: 1 <= s <= B.S
    pre: 0 <= b <= B.S
    pre: 0 <= n <= B.N + B.S + 2
    post: _
    """
    # Slice(-s, b): the result is xs[-s:b]; once more than b + s values have
    # been seen it is known to be empty, so an infinite flow terminates and
    # at most s values are kept
    vals = list(range(n))
    trace = []
    with patched_deque():
        PyDeque.reset_stats()
        feed = Feed(vals, trace, infinite=True if infinite else False)
        try:
            got = list(Slice(-s, b).run(feed))
        except PullBudget:
            return h.ok(False)
        if PyDeque.high_water > s:
            return h.ok(False)
    if infinite:
        return h.ok(got == [] and pulls(trace) <= b + s + 1)
    return h.ok(got == vals[-s:b] and pulls(trace) <= n)


def check_negative_slice(s: int, form: int, xs: List[int], k: int, step: int) -> bool:
    """
    pre: 1 <= s <= B.S
    pre: 0 <= form <= 2
    pre: len(xs) <= B.N + 2
    pre: 0 <= k <= len(xs)
    pre: 1 <= step <= 3
    pre: h.in_shard(form + 3 * (step - 1))
    post: _
    """
    vals = list(xs)
    trace = []
    with patched_deque():
        PyDeque.reset_stats()
        feed = Feed(vals, trace)
        if form == 0:
            el = Slice(None, -s, step)  # negative stop: lags the input by s
        elif form == 1:
            el = Slice(1, -s, step)
        else:
            el = Slice(-s, None, step)  # last s values: keeps s alive
        gen = el.run(feed)
        if pulls(trace) != 0:
            return h.ok(False)
        it = iter(gen)
        j = 0
        while j < k:
            try:
                next(it)
            except StopIteration:
                break
            j += 1
            # the j-th result is input number (j-1)*step (+1 for start=1):
            # a negative stop lags its input by exactly s values
            if form == 0 and pulls(trace) != (j - 1) * step + 1 + s:
                return h.ok(False)
            if form == 1 and pulls(trace) != (j - 1) * step + 1 + s + 1:
                return h.ok(False)
        if PyDeque.high_water > s:
            return h.ok(False)
    return h.ok(True)


CONDITIONS = [
    dict(fn="check_demand", shards=(20, 40), budget=(220, 1500),
         smoke=["check_demand(2, 2, 3, 0, 0, 2, [1, 2, 3], 2, True)",
                "check_demand(2, 3, 0, 0, 1, 2, [1, 2, 3], 3, False)",
                "check_demand(2, 7, 1, 0, 0, 0, [1, 2], 2, False)", "check_demand(2, 2, 3, 0, 0, 0, [95850, 35739], 1, True)"]),
    dict(fn="check_infinite", shards=(5, 10), budget=(60, 300), smoke=["check_infinite(3, 0, 1)"]),
    dict(fn="check_split_blocks", shards=(12, 24), budget=(70, 900),
         smoke=["check_split_blocks(2, [1, 2, 3, 4, 5], 4, 2, True, False)", "check_split_blocks(2, [1, 2, 3, 4, 5], 4, 2, False, True)"]),
    dict(fn="check_negative_start_positive_stop", budget=(70, 600),
         smoke=["check_negative_start_positive_stop(2, 3, 4, False)", "check_negative_start_positive_stop(2, 3, 0, True)"]),
    dict(fn="check_negative_slice", shards=(9, 9), budget=(70, 900),
         smoke=["check_negative_slice(2, 0, [1, 2, 3, 4, 5], 3, 1)", "check_negative_slice(2, 2, [1, 2, 3, 4, 5], 2, 1)",
                "check_negative_slice(1, 1, [1, 2, 3, 4], 2, 1)", "check_negative_slice(1, 0, [1, 2, 3, 4, 5], 2, 2)"]),
]
