"""C12, engine R layer: scaling / addition / conversion of histograms and
graphs whose contents, edges, scales and weights are *symbolic reals*.

Every scenario below calls the real lena functions with `verif.symreal.SR`
proxies; shapes (dimension, bins per axis, naming, number of points) are
concrete and enumerated by the shards, every number is a solver variable.
An obligation is discharged when z3 shows `path condition => lhs == rhs`
valid in non-linear real arithmetic, i.e. for every real content, edge,
scale and weight.  The same scenario runs with Python floats (concrete mode)
to replay a counterexample; there `check` is closeness within 1e-9.
"""
import builtins
import copy
import itertools

import lena.core
import lena.structures
import lena.structures.hist_functions as hf
from lena.core import LenaValueError
from lena.structures import histogram, graph, hist_to_graph, ScaleTo

from verif import symreal as R

import sys
hist_mod = sys.modules["lena.structures.histogram"]
graph_mod = sys.modules["lena.structures.graph"]
hf = sys.modules["lena.structures.hist_functions"]

SHAPES_Q = [(1,), (2,), (3,), (1, 1), (2, 1), (1, 2), (2, 2)]
# 3-d shapes with 8 cells (degree-4 polynomials in 20 variables) leave the
# 'recomputed scale' obligation unknown within 60 s: outside the bound
SHAPES_T = SHAPES_Q + [(4,), (3, 2), (2, 3), (1, 1, 1), (2, 1, 1), (1, 2, 1), (1, 1, 2), (2, 2, 1)]


def stubs():
    """float / int as seen from the lena modules under analysis are the
    identity / truncation on symbolic reals (verif.symreal.sfloat, sint)."""
    return R.stubs(hist_mod, graph_mod, hf)


def flat(bins):
    if isinstance(bins, list):
        out = []
        for b in bins:
            out += flat(b)
        return out
    return [bins]


def _mk(c, shape, tag, edges=None):
    """A histogram of the given shape with fresh contents (and fresh,
    strictly increasing edges unless given)."""
    dim = len(shape)
    if edges is None:
        edges = []
        for d, n in enumerate(shape):
            ax = [c.fresh("e%d_0" % d)]
            for i in range(n):
                w = c.fresh("w%d_%d" % (d, i))
                c.assume(w > 0)
                ax.append(ax[-1] + w)
            edges.append(ax)
    k = [0]

    def fill(d):
        if d == dim:
            k[0] += 1
            return c.fresh("%s%d" % (tag, k[0]))
        return [fill(d + 1) for _ in range(shape[d])]
    bins = fill(0)
    if dim == 1:
        hist = histogram(list(edges[0]), bins)
    else:
        hist = histogram([list(ax) for ax in edges], bins)
    return hist, edges


def _ref_integral(cells, edges, shape):
    tot = 0
    for k, index in enumerate(itertools.product(*[range(n) for n in shape])):
        vol = 1
        for d, i in enumerate(index):
            vol = vol * (edges[d][i + 1] - edges[d][i])
        tot = tot + vol * cells[k]
    return tot


def _same_edges(c, hist, edges, label):
    he = [hist.edges] if len(edges) == 1 else hist.edges
    ok = len(he) == len(edges) and all(len(a) == len(b) for a, b in zip(he, edges))
    c.check(label + ":edge-shape", ok)
    if ok:
        for a, b in zip(he, edges):
            for x, y in zip(a, b):
                c.check(label + ":edge", x, y)


def sc_hist_scale(c, shape, via_el):
    with stubs():
        hist, edges = _mk(c, shape, "b")
        oor = c.fresh("oor")
        s = c.fresh("s")
        c.assume(s != 0)
        hist.n_out_of_range = oor
        before = flat(hist.bins)
        old = hist.scale()
        c.check("integral", old, _ref_integral(before, edges, shape))
        try:
            if via_el:
                ScaleTo(s)((hist, {}))
            else:
                hist.scale(s)
        except LenaValueError:
            c.check("LenaValueError only for zero scale", old == 0)
            after = flat(hist.bins)
            c.check("unchanged-len", len(after) == len(before))
            for a, b in zip(after, before):
                c.check("unchanged on error", a, b)
            c.check("oor unchanged on error", hist.n_out_of_range, oor)
            return
        c.check("zero scale must raise", old != 0)
        after = flat(hist.bins)
        c.check("len", len(after) == len(before))
        for i, (a, b) in enumerate(zip(after, before)):
            c.check("cell*old == content*s", a * old, b * s)
        c.check("n_out_of_range", hist.n_out_of_range * old, oor * s)
        _same_edges(c, hist, edges, "scale")
        c.check("stored scale", hist.scale(), s)
        c.check("recomputed scale", hist.scale(recompute=True), s)


def sc_hist_add(c, shape, perturb):
    """perturb: None (same edges) or (axis, index) of the one edge of *other*
    moved by a symbolic amount d (any real keeping the edges increasing)."""
    with stubs():
        a, edges = _mk(c, shape, "a")
        if perturb is None:
            b, _ = _mk(c, shape, "b", edges=edges)
            dist = None
        else:
            d = c.fresh("d")
            ax, i = perturb
            e2 = [list(x) for x in edges]
            e2[ax][i] = e2[ax][i] + d
            for j in range(len(e2[ax]) - 1):
                c.assume(e2[ax][j] < e2[ax][j + 1])
            b, _ = _mk(c, shape, "b", edges=e2)
            dist = (edges[ax][i], e2[ax][i])
        w = c.fresh("w")
        na, nb = c.fresh("na"), c.fresh("nb")
        a.n_out_of_range, b.n_out_of_range = na, nb
        fa, fb = flat(a.bins), flat(b.bins)
        ea = copy.deepcopy(a.edges)
        eb = copy.deepcopy(b.edges)
        try:
            r = a.add(b, w)
        except LenaValueError:
            if dist is None:
                c.check("equal edges must be accepted", False)
            else:
                x, y = dist
                df = abs(x - y)
                mx = abs(x) if abs(x) >= abs(y) else abs(y)
                c.check("rejected only beyond the relative tolerance 1e-9", df > 1e-9 * mx)
            return
        if dist is not None:
            x, y = dist
            df = abs(x - y)
            mx = abs(x) if abs(x) >= abs(y) else abs(y)
            c.check("accepted only within the relative tolerance 1e-9", df <= 1e-9 * mx)
        fr = flat(r.bins)
        c.check("len", len(fr) == len(fa))
        for x, y, z in zip(fr, fa, fb):
            c.check("cell == a + w*b", x, y + w * z)
        c.check("n_out_of_range", r.n_out_of_range, na + w * nb)
        _same_edges(c, r, edges, "sum")
        # operands untouched
        for x, y in zip(flat(a.bins), fa):
            c.check("a unchanged", x, y)
        for x, y in zip(flat(b.bins), fb):
            c.check("b unchanged", x, y)
        c.check("a.oor", a.n_out_of_range, na)
        c.check("b.oor", b.n_out_of_range, nb)
        c.check("a.edges", a.edges == ea)
        c.check("b.edges", b.edges == eb)
        c.check("new object", r is not a and r.bins is not a.bins and r.bins is not b.bins)


def sc_set_nevents(c, shape, incl):
    with stubs():
        hist, edges = _mk(c, shape, "b")
        oor = c.fresh("oor")
        n = c.fresh("n")
        c.assume(n != 0)
        hist.n_out_of_range = oor
        before = flat(hist.bins)
        tot = 0
        for b in before:
            tot = tot + b
        if incl:
            tot = tot + oor
        c.check("get_nevents", hist.get_nevents(include_out_of_range=incl), tot)
        try:
            hist.set_nevents(n, include_out_of_range=incl)
        except LenaValueError:
            c.check("LenaValueError only for zero events", tot == 0)
            for a, b in zip(flat(hist.bins), before):
                c.check("unchanged on error", a, b)
            return
        c.check("zero events must raise", tot != 0)
        after = flat(hist.bins)
        c.check("len", len(after) == len(before))
        for a, b in zip(after, before):
            c.check("cell*old == content*n", a * tot, b * n)
        c.check("n_out_of_range", hist.n_out_of_range * tot, oor * n)
        c.check("get_nevents after", hist.get_nevents(include_out_of_range=incl), n)
        _same_edges(c, hist, edges, "nevents")


NAMINGS = [("x",), ("x", "y"), ("x", "y", "error_y"), ("x", "y", "error_x"),
           ("x", "y", "error_x", "error_y"), ("x", "y", "z"),
           ("x", "y", "z", "error_z_low", "error_z_high"),
           ("x", "y", "error_y_low", "error_y_high", "error_x"),
           ("E", "time", "error_E_low", "error_time"),
           ("x2", "x", "error_x2", "error_x"), ("xy", "x", "error_xy_low", "error_x_low")]


def sc_graph_scale(c, naming, npts, unknown):
    names = NAMINGS[naming]
    with stubs():
        coords = [[c.fresh("c%d_%d" % (k, p)) for p in range(npts)] for k in range(len(names))]
        old = None if unknown else c.fresh("old")
        s = c.fresh("s")
        c.assume(s != 0)
        g = graph([list(x) for x in coords], field_names=names, scale=old)
        if unknown:
            c.check("unknown scale", g.scale() is None)
        else:
            c.check("scale()", g.scale(), old)
        try:
            g.scale(s)
        except LenaValueError:
            if not unknown:
                c.check("LenaValueError only for zero scale", old == 0)
            for k in range(len(names)):
                for p in range(npts):
                    c.check("unchanged on error", g.coords[k][p], coords[k][p])
            return
        if unknown:
            c.check("unknown scale must raise", False)
            return
        c.check("zero scale must raise", old != 0)
        ncoord = len([nm for nm in names if not nm.startswith("error_")])
        last = names[ncoord - 1]
        for k, nm in enumerate(names):
            scaled = (k == ncoord - 1) or (nm.startswith("error_")
                                           and (nm[6:] == last or nm[6:].startswith(last + "_")))
            c.check("len", len(g.coords[k]) == npts)
            for p in range(npts):
                if scaled:
                    c.check("coord*old == coord0*s", g.coords[k][p] * old, coords[k][p] * s)
                else:
                    c.check("other coordinate untouched", g.coords[k][p], coords[k][p])
        c.check("new scale", g.scale(), s)


def sc_hist_to_graph(c, shape, mode, with_scale):
    m = ["left", "right", "middle"][mode]
    with stubs():
        hist, edges = _mk(c, shape, "b")
        names = ("x", "y", "z", "t")[:len(shape) + 1]
        g = hist_to_graph(hist, get_coordinate=m, field_names=names,
                          scale=True if with_scale else None)
        pts = list(g)
        cells = flat(hist.bins)
        c.check("one point per cell", len(pts) == len(cells))
        for k, index in enumerate(itertools.product(*[range(n) for n in shape])):
            pt = pts[k]
            c.check("point arity", len(pt) == len(shape) + 1)
            for d, i in enumerate(index):
                lo, hi = edges[d][i], edges[d][i + 1]
                want = lo if m == "left" else (hi if m == "right" else (lo + hi) / 2)
                c.check("coordinate %s" % m, pt[d], want)
            c.check("value", pt[len(shape)], cells[k])
        if with_scale:
            c.check("graph scale == integral", g.scale(), _ref_integral(cells, edges, shape))


SCENARIOS = {"hist_scale": sc_hist_scale, "hist_add": sc_hist_add, "set_nevents": sc_set_nevents,
             "graph_scale": sc_graph_scale, "hist_to_graph": sc_hist_to_graph}


def replay_real(name, args_json, assignment_json):
    """Concrete replay (Python floats, the real code, tolerance 1e-9) of a
    model found by engine R.  True = every obligation holds."""
    return R.replay(SCENARIOS, name, args_json, assignment_json)


def run_cases(name, cases, budget):
    return R.run_cases("harness.c12_real", SCENARIOS, name, cases, budget)
