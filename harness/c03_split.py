"""C03 - Split.run follows its documented block/branch schedule; common-type
methods; Zip."""
from typing import List

import lena.core
import lena.flow
from lena.core import Split, Source, Sequence, FillComputeSeq
from lena.flow import Slice, StoreFilled, Zip
from lena.math import Sum

from verif import h

PROPERTY = "C03"
B = h.bounds(
    quick=dict(NB=2, NK=8, FLOW=3, BUF=2, J=1, ZN=2, ENB=2),
    thorough=dict(NB=3, NK=9, FLOW=4, BUF=4, J=3, ZN=3, ENB=3),
)
BOUNDS = dict(vars(B), meaning="<= NB branches over NK of 9 branch kinds (an explicit Sequence object holding an accumulator - a plain per-block Sequence, not a fill/compute branch -, source, fill/compute, "
              "stopping fill/compute, fill/request, stopping fill/request, per-value sequence, "
              "sequence with end-of-block marker, filter sequence); flow length <= FLOW of "
              "symbolic ints; bufsize in 1..BUF, 1000, None; LenaStopFill at fill index <= J; "
              "copy_buf both")
FUNCTIONS = ["lena.core.split._get_seq_with_type", "Split.__init__", "Split.run", "Split._fill",
             "Split._compute", "Split._request", "Split.__call__", "Split._empty_run",
             "lena.flow.zip.Zip.__init__", "Zip._fill", "Zip._compute", "Zip._request",
             "Zip._yield", "lena.core.check_sequence_type.*", "FillComputeSeq.__init__/compute",
             "FillSeq.__init__", "Sequence.run", "Source.__call__", "lena.core.meta.alter_sequence"]
STUBS = []
ASSUMPTIONS = ["branches are built from the harness vocabulary (Tag/Gen/FR user elements, "
               "lena Sum, StoreFilled, Slice); the fill/request branch is a bare user element "
               "so that the defects of the FillRequest adapter (C16) do not leak in",
               "itertools.islice realised on concrete bufsize values"]
OUTSIDE = ["branches containing Cache", "nested Split deeper than 1", "more than NB branches"]

NKINDS = 9


class Tag(object):
    def __init__(self, t):
        self.t = t

    def __call__(self, v):
        return (self.t, v)


class Gen(object):
    def __init__(self, t):
        self.t = t
        self.calls = 0

    def __call__(self):
        self.calls += 1
        yield (self.t, 100)
        yield (self.t, 101)


class FR(object):
    """Minimal fill/request element: request() yields what was filled since
    the previous request; optionally signals LenaStopFill at fill number j."""

    def __init__(self, t, stop_at=None):
        self.t = t
        self.buf = []
        self.n = 0
        self.stop_at = stop_at
        self.requests = 0

    def fill(self, v):
        if self.stop_at is not None and self.n == self.stop_at:
            raise lena.core.LenaStopFill()
        self.n += 1
        self.buf.append(v)

    def request(self):
        self.requests += 1
        out, self.buf = self.buf, []
        for v in out:
            yield (self.t, "r", v)


class EndMark(object):
    """Run element: passes values tagged, then marks the end of its flow."""

    def __init__(self, t):
        self.t = t

    def run(self, flow):
        for v in flow:
            yield (self.t, v)
        yield (self.t, "end")


def _inc(v):
    return v + 1


def _dbl(v):
    return v + v


def make_branch(kind, t, j):
    if kind == 0:
        return Source(Gen(t))
    if kind == 1:
        # two pre-processing steps that do not commute, then the accumulator
        return (_inc, _dbl, Sum(), Tag(t))
    if kind == 2:
        return (Slice(j), StoreFilled(), Tag(t))
    if kind == 3:
        return FR(t)
    if kind == 4:
        return FR(t, stop_at=j)
    if kind == 5:
        return (Tag(t),)
    if kind == 6:
        return EndMark(t)
    if kind == 7:
        # an explicit Sequence object is a plain Sequence branch whatever it
        # contains: run on every block (the accumulator inside keeps summing)
        return Sequence(Sum(), Tag(t))
    return (lena.flow.Filter(_positive), Tag(t))


def _positive(v):
    return True if v > 0 else False


def chunks(flow, bufsize):
    if bufsize is None:
        return [list(flow)] if flow else []
    return [flow[i:i + bufsize] for i in range(0, len(flow), bufsize)]


def ref_split(kinds, j, bufsize, flow):
    """Transcription of the Split.run docstring (not of its code)."""
    nb = len(kinds)
    if nb == 0:
        return list(flow)
    out = []
    active = list(range(nb))
    acc = dict((b, 0) for b in range(nb))        # Sum state
    stored = dict((b, []) for b in range(nb))    # StoreFilled / FR counters
    nfilled = dict((b, 0) for b in range(nb))
    for block in chunks(flow, bufsize):
        for b in list(active):
            k = kinds[b]
            if k == 0:
                out += [(b, 100), (b, 101)]
                active.remove(b)
            elif k == 1:
                for v in block:
                    acc[b] += (v + 1) + (v + 1)
            elif k == 2:
                for v in block:
                    if nfilled[b] == j:
                        out.append((b, list(stored[b])))
                        active.remove(b)
                        break
                    nfilled[b] += 1
                    stored[b].append(v)
            elif k == 3:
                out += [(b, "r", v) for v in block]
            elif k == 4:
                stopped = False
                got = []
                for v in block:
                    if nfilled[b] == j:
                        stopped = True
                        break
                    nfilled[b] += 1
                    got.append(v)
                out += [(b, "r", v) for v in got]
                if stopped:
                    active.remove(b)
            elif k == 5:
                out += [(b, v) for v in block]
            elif k == 6:
                out += [(b, v) for v in block] + [(b, "end")]
            elif k == 7:
                for v in block:
                    acc[b] += v
                out.append((b, acc[b]))
            else:
                out += [(b, v) for v in block if v > 0]
    empty = not flow
    for b in active:
        k = kinds[b]
        if k == 0:
            out += [(b, 100), (b, 101)]
        elif k == 1:
            out.append((b, acc[b]))
        elif k == 2:
            out.append((b, list(stored[b])))
        elif k == 6 and empty:
            out.append((b, "end"))
        elif k == 7 and empty:
            out.append((b, 0))
    return out


def _bufsize(bs):
    if bs == B.BUF + 1:
        return 1000
    if bs == B.BUF + 2:
        return None
    return bs


def check_split_run(nb: int, k0: int, k1: int, k2: int, j: int, bs: int,
                    flow: List[int]) -> bool:
    """
    pre: 0 <= nb <= B.NB
    pre: 0 <= k0 < B.NK and 0 <= k1 < B.NK and 0 <= k2 < B.NK
    pre: 0 <= j <= B.J
    pre: 1 <= bs <= B.BUF + 2
    pre: len(flow) <= B.FLOW
    pre: h.in_shard(k0 * B.NK + k1)
    post: _
    """
    kinds = [k0, k1, k2][:nb]
    bufsize = _bufsize(bs)
    branches = [make_branch(k, t, j) for t, k in enumerate(kinds)]
    s = Split(branches, bufsize=bufsize)
    got = list(s.run(iter(flow)))
    want = ref_split(kinds, j, bufsize, list(flow))
    return h.ok(got == want)


STATELESS = (0, 3, 5, 6, 8)


def check_split_rerun(nb: int, k0: int, k1: int, bs: int, explicit: bool, flow: List[int]) -> bool:
    """
    pre: 1 <= nb <= 2
    pre: 0 <= k0 <= 4 and 0 <= k1 <= 4
    pre: 1 <= bs <= B.BUF + 2
    pre: len(flow) <= B.FLOW
    pre: h.in_shard(k0 + 5 * (bs % 2))
    post: _
    """
    # a Split object run again (its branches have no state of their own)
    # follows the same schedule; branches given as explicit Sequence objects
    # behave like the tuples they are built from
    kinds = [h.choose(STATELESS, k) for k in [k0, k1][:nb]]
    bufsize = _bufsize(bs)
    branches = []
    for t, k in enumerate(kinds):
        br = make_branch(k, t, 0)
        if explicit and isinstance(br, tuple):
            br = Sequence(*br)
        branches.append(br)
    s = Split(branches, bufsize=bufsize)
    want = ref_split(kinds, 0, bufsize, list(flow))
    first = list(s.run(iter(list(flow))))
    second = list(s.run(iter(list(flow))))
    third = list(s.run(iter([])))
    return h.ok(first == want and second == want and third == ref_split(kinds, 0, bufsize, []))


def check_split_copy_buf(k0: int, k1: int, j: int, bs: int, copy_buf: bool,
                         flow: List[int]) -> bool:
    """
    pre: 0 <= k0 < NKINDS - 1 and 0 <= k1 < NKINDS - 1
    pre: j == 1
    pre: 1 <= bs <= 2
    pre: len(flow) <= 2
    pre: h.in_shard(k0)
    post: _
    """
    # copy_buf changes nothing for branches that do not mutate their input
    kinds = [k0, k1]
    branches = [make_branch(k, t, j) for t, k in enumerate(kinds)]
    s = Split(branches, bufsize=bs, copy_buf=True if copy_buf else False)
    got = list(s.run(iter(flow)))
    return h.ok(got == ref_split(kinds, j, bs, list(flow)))


def check_split_once_on_empty(nb: int, k0: int, k1: int, k2: int, bs: int) -> bool:
    """
    pre: 1 <= nb <= B.ENB
    pre: 0 <= k0 < NKINDS and 0 <= k1 < NKINDS and 0 <= k2 < NKINDS
    pre: B.BUF + 1 <= bs <= B.BUF + 2
    pre: h.in_shard(k0)
    post: _
    """
    # on an empty flow every branch is still invoked exactly once
    kinds = [k0, k1, k2][:nb]
    srcs, frs = [], []
    branches = []
    for t, k in enumerate(kinds):
        if k == 0:
            g = Gen(t)
            srcs.append(g)
            branches.append(Source(g))
        elif k in (3, 4):
            f = FR(t, stop_at=None if k == 3 else 1)
            frs.append(f)
            branches.append(f)
        else:
            branches.append(make_branch(k, t, 1))
    s = Split(branches, bufsize=_bufsize(bs))
    got = list(s.run(iter([])))
    if got != ref_split(kinds, 1, _bufsize(bs), []):
        return h.ok(False)
    return h.ok(all([g.calls == 1 for g in srcs]) and all([f.requests == 1 for f in frs]))


class AppendTag(object):
    """Changes its (mutable) value in place."""

    def __init__(self, t):
        self.t = t

    def __call__(self, v):
        v.append(self.t)
        return v


def check_common_type(kind: int, nb: int, copy_buf: bool, flow: List[int], j: int) -> bool:
    """
    pre: 0 <= kind <= 4
    pre: 1 <= nb <= 3
    pre: len(flow) <= B.FLOW
    pre: 0 <= j <= B.J
    post: _
    """
    cb = True if copy_buf else False
    if kind == 4:
        # all fill/compute, every branch changes the value it is given in
        # place: with copy_buf (the default) fill + compute means the same as
        # run - what each branch computes alone on its own copy of the flow
        if not cb:
            return True
        mk = lambda: Split([(AppendTag(t), StoreFilled()) for t in range(nb)], copy_buf=True)
        s = mk()
        for x in flow:
            s.fill([x])
        got = list(s.compute())
        want = [[[x, t] for x in flow] for t in range(nb)]
        ran = list(mk().run(iter([[x] for x in flow])))
        return h.ok(got == want and ran == want)
    if kind == 0:      # all fill/compute: fill + compute
        s = Split([(Sum(), Tag(t)) for t in range(nb)], copy_buf=cb)
        for v in flow:
            s.fill(v)
        got = list(s.compute())
        tot = 0
        for v in flow:
            tot += v
        ok = got == [(t, tot) for t in range(nb)]
        try:
            list(s())
            return h.ok(False)
        except lena.core.LenaAttributeError:
            pass
        return h.ok(ok and not hasattr(s, "request"))
    if kind == 1:      # all fill/request: fill + request, at a symbolic point j
        s = Split([FR(t) for t in range(nb)], copy_buf=cb)
        got = []
        for i, v in enumerate(flow):
            if i == j:
                got += list(s.request())
            s.fill(v)
        got += list(s.request())
        a, b = list(flow[:j]), list(flow[j:])
        want = [(t, "r", v) for t in range(nb) for v in a]
        want += [(t, "r", v) for t in range(nb) for v in b]
        if len(flow) <= j:
            want = [(t, "r", v) for t in range(nb) for v in flow]
        try:
            list(s())
            return h.ok(False)
        except lena.core.LenaAttributeError:
            pass
        return h.ok(got == want and not hasattr(s, "compute"))
    if kind == 2:      # all sources: __call__
        s = Split([Source(Gen(t)) for t in range(nb)], copy_buf=cb)
        want = []
        for t in range(nb):
            want += [(t, 100), (t, 101)]
        return h.ok(list(s()) == want and not hasattr(s, "fill"))
    # mixed types: neither fill nor a working __call__
    s = Split([(Sum(), Tag(0)), FR(1)] + [(Tag(2),)][:nb - 1], copy_buf=cb)
    try:
        list(s())
        return h.ok(False)
    except lena.core.LenaAttributeError:
        pass
    return h.ok(not hasattr(s, "fill") and not hasattr(s, "compute")
                and not hasattr(s, "request"))


def check_zip(kind: int, nb: int, n0: int, n1: int, n2: int, flow: List[int]) -> bool:
    """
    pre: 0 <= kind <= 1
    pre: 1 <= nb <= 3
    pre: 0 <= n0 <= B.ZN and 0 <= n1 <= B.ZN and 0 <= n2 <= B.ZN
    pre: len(flow) <= B.FLOW
    pre: h.in_shard(kind + 2 * n0)
    post: _
    """
    ns = [n0, n1, n2][:nb]
    if kind == 0:
        # fill/compute branches; branch t keeps its first ns[t] values and
        # yields them one by one
        z = Zip([(Slice(ns[t]), StoreFilled(yield_as_a_group=False), Tag(t))
                 for t in range(nb)])
        for v in flow:
            try:
                z.fill(v)
            except lena.core.LenaStopFill:
                break
        got = list(z.compute())
    else:
        z = Zip([FR(t, stop_at=ns[t]) for t in range(nb)])
        for v in flow:
            try:
                z.fill(v)
            except lena.core.LenaStopFill:
                break
        got = list(z.request())
    # what each branch holds: a LenaStopFill from branch t aborts the fill
    # of the later branches for that value and ends the filling
    held = [[] for _ in range(nb)]
    stop = False
    for v in flow:
        for t in range(nb):
            if len(held[t]) == ns[t]:
                stop = True
                break
            held[t].append(v)
        if stop:
            break
    m = min([len(x) for x in held])
    if kind == 0:
        want = [tuple([(t, held[t][i]) for t in range(nb)]) for i in range(m)]
    else:
        want = [tuple([(t, "r", held[t][i]) for t in range(nb)]) for i in range(m)]
    return h.ok(got == want)


CONDITIONS = [
    dict(fn="check_split_run", shards=(16, 32), budget=(110, 1500),
         smoke=["check_split_run(2, 1, 2, 0, 1, 2, [5, 7, 9])",
                "check_split_run(2, 0, 3, 0, 1, 1, [5, 7])",
                "check_split_run(2, 6, 4, 0, 0, 4, [])",
                "check_split_run(0, 0, 0, 0, 0, 1, [4, 5])"]),
    dict(fn="check_split_rerun", shards=(10, 10), budget=(150, 600),
         smoke=["check_split_rerun(2, 0, 2, 1, False, [5, 7])", "check_split_rerun(2, 1, 3, 2, True, [5, 7, 9])"]),
    dict(fn="check_split_copy_buf", shards=(7, 7), budget=(90, 300),
         smoke=["check_split_copy_buf(1, 5, 0, 1, False, [5, 7])"]),
    dict(fn="check_split_once_on_empty", shards=(4, 8), budget=(60, 300),
         smoke=["check_split_once_on_empty(3, 0, 3, 4, 2)"]),
    dict(fn="check_common_type", budget=(60, 400),
         smoke=["check_common_type(0, 2, True, [1, 2], 0)", "check_common_type(1, 2, True, [1, 2, 3], 1)",
                "check_common_type(2, 3, True, [], 0)", "check_common_type(3, 2, True, [], 0)",
                "check_common_type(4, 3, True, [1, 2], 0)"]),
    dict(fn="check_zip", shards=(6, 8), budget=(60, 600),
         smoke=["check_zip(0, 2, 2, 1, 0, [4, 5, 6])", "check_zip(1, 2, 3, 2, 0, [4, 5, 6])"]),
]
