#!/bin/bash
# Build /verif/.venv offline: an overlay of /venv (which holds lena's own
# dependencies) plus crosshair-tool from the local wheelhouse.
set -e
cd "$(dirname "$0")"
exec 9>/tmp/.verif-setup.lock
flock 9
if [ -x .venv/bin/python ] && .venv/bin/python -c "import crosshair, z3, jinja2" 2>/dev/null; then
    exit 0
fi
rm -rf .venv
/venv/bin/python -m venv .venv
SP=$(.venv/bin/python -c "import sysconfig; print(sysconfig.get_paths()['purelib'])")
echo "import site; site.addsitedir('/venv/lib/python3.12/site-packages')" > "$SP/zz_venv_overlay.pth"
PIP_NO_INDEX=1 .venv/bin/pip install -q --no-index --find-links /opt/veriftools/wheels crosshair-tool
.venv/bin/python -c "import crosshair, z3, jinja2; print('verif venv ready: crosshair', crosshair.__version__, 'z3', z3.get_version_string())"
